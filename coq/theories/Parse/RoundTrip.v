(* Parse/RoundTrip.v -- C07 on the fragment: every canonical tree, spelled without any added parenthesis, parses back to
   itself.  Proof in continuation form over the big-step view [Parses]. *)
From Verif Require Import Base.Bytes Tree.Tree Parse.ExprModel Parse.ExprFacts Parse.Spell.
Local Open Scope nat_scope.

(* ---------- the parse function of each level ---------- *)
Definition enter (n : nat) : mode :=
  match n with
  | 0 => MLit | 1 => MSel | 2 => MUnary
  | 3 => MBin BMul | 4 => MBin BAdd | 5 => MBin BShift | 6 => MBin BBitAnd | 7 => MBin BBitXor | 8 => MBin BBitOr
  | 9 => MCmp | 10 => MNot | 11 => MBin BAnd | _ => MBin BOr
  end.

Definition level_of (l : blevel) : nat :=
  match l with BMul => 3 | BAdd => 4 | BShift => 5 | BBitAnd => 6 | BBitXor => 7 | BBitOr => 8 | BAnd => 11 | BOr => 12 end.

Lemma enter_level l : enter (level_of l) = MBin l.
Proof. destruct l; reflexivity. Qed.
Lemma sub_mode_level l : sub_mode l = enter (Nat.pred (level_of l)).
Proof. destruct l; reflexivity. Qed.

(* ---------- Parses: introduction rules (one per mode), via fuel monotonicity ---------- *)
Lemma Parses_fuel m ts r : Parses m ts r -> exists f0, forall f, f0 <= f -> P f m ts = Ok r.
Proof. intros [f0 H]. exists f0. intros f L. rewrite (P_mono f0 f m ts L); [exact H|congruence]. Qed.

Lemma Parses_step m ts r f : step (P f) m ts = Ok r -> Parses m ts r.
Proof. intros H. exists (S f). exact H. Qed.

(* tactic: turn hypotheses [Parses ..] into equations at one common amount of fuel F *)
Ltac common_fuel F :=
  let rec go acc :=
      lazymatch goal with
      | H : Parses ?m ?ts ?r |- _ =>
          let f0 := fresh "f0" in let Hf := fresh "Hf" in
          destruct (Parses_fuel m ts r H) as [f0 Hf]; clear H; go (acc + f0)
      | _ => set (F := acc)
      end in
  go 0.

Ltac at_fuel F :=
  repeat match goal with
         | Hf : forall f, ?f0 <= f -> P f ?m ?ts = Ok ?r |- _ =>
             let E := fresh "E" in assert (E : P F m ts = Ok r) by (apply Hf; unfold F; lia); clear Hf
         end.

Ltac run_fuel :=
  repeat first [ progress cbn [bind]
               | match goal with E : P ?F ?m ?t = Ok _ |- context [P ?F ?m ?t] => rewrite E end ];
  try reflexivity.

Lemma Parses_bin l ts e1 ts1 r :
  Parses (sub_mode l) ts (e1, ts1) -> Parses (MLoop l e1) ts1 r -> Parses (MBin l) ts r.
Proof.
  intros H1 H2. common_fuel F. at_fuel F. apply (Parses_step _ _ _ F). cbn [step]. run_fuel.
Qed.

Lemma Parses_loop_stop l acc ts : find_op (cur ts) (level_ops l) = None -> Parses (MLoop l acc) ts (acc, ts).
Proof. intros H. apply (Parses_step _ _ _ 0). cbn [step]. rewrite H. reflexivity. Qed.

Lemma Parses_loop_go l acc ts op r1 ts1 r :
  find_op (cur ts) (level_ops l) = Some op ->
  Parses (sub_mode l) (next ts) (r1, ts1) -> Parses (MLoop l (EBinary op acc r1)) ts1 r -> Parses (MLoop l acc) ts r.
Proof.
  intros H H1 H2. common_fuel F. at_fuel F. apply (Parses_step _ _ _ F). cbn [step]. rewrite H. run_fuel.
Qed.

Lemma Parses_sel ts e ts1 r : Parses MLit ts (e, ts1) -> Parses (MSelLoop e) ts1 r -> Parses MSel ts r.
Proof. intros H1 H2. common_fuel F. at_fuel F. apply (Parses_step _ _ _ F). cbn [step]. run_fuel. Qed.

Lemma Parses_via m m' ts r : (forall rec, step rec m ts = rec m' ts) -> Parses m' ts r -> Parses m ts r.
Proof. intros H [f Hf]. exists (S f). cbn [P]. rewrite H. exact Hf. Qed.

(* ---------- which token stops an expression parsed at level n ---------- *)
Definition no_level_op (t : ptok) (l : blevel) : bool := match find_op t (level_ops l) with None => true | Some _ => false end.
Definition all_levels : list blevel := [BMul; BAdd; BShift; BBitAnd; BBitXor; BBitOr; BAnd; BOr].
Definition cmp_stop (t : ptok) : bool :=
  match find_op t cmp_ops with None => true | Some _ => false end
  && negb (kis t "IN") && negb (kis t "BETWEEN") && negb (kis t "NOT") && negb (kis t "IS").

Definition stops (n : nat) (t : ptok) : bool :=
  negb (kis t "(") && negb (kis t K_string)
  && (Nat.eqb n 0 || (negb (kis t ".") && negb (kis t "[")))        (* a primary may be followed by a field access or a subscript *)
  && forallb (fun l => Nat.ltb n (level_of l) || no_level_op t l) all_levels
  && (Nat.ltb n 9 || cmp_stop t).

(* parseLit looks ahead over ident (. ident)* for an opening parenthesis (a function call): after a dot, no amount of fuel
   makes that look-ahead answer true *)
Definition dotcall (K : toks) : Prop := kis (cur K) "." = true -> forall f, lookahead_call f (next K) = false.

Definition follow (n : nat) (K : toks) : Prop := K <> [] /\ stops n (cur K) = true /\ dotcall K.

Lemma orb_ltb_mono n m c b : n <= m -> Nat.ltb m c || b = true -> Nat.ltb n c || b = true.
Proof.
  intros L H. apply orb_true_iff in H as [H|H]; [|rewrite H; apply orb_true_r].
  apply Nat.ltb_lt in H. assert (n < c) by lia. apply Nat.ltb_lt in H0. rewrite H0. reflexivity.
Qed.

Lemma stops_parts n t : stops n t = true <->
  (kis t "(" = false /\ kis t K_string = false /\
   (Nat.eqb n 0 || (negb (kis t ".") && negb (kis t "[")) = true) /\
   (forall l, In l all_levels -> Nat.ltb n (level_of l) || no_level_op t l = true) /\
   (Nat.ltb n 9 || cmp_stop t = true)).
Proof.
  unfold stops. rewrite !andb_true_iff, forallb_forall, !negb_true_iff. tauto.
Qed.

Lemma stops_mono n m t : n <= m -> stops m t = true -> stops n t = true.
Proof.
  intros L H. apply stops_parts in H as (A & B & C & D & E). apply stops_parts.
  repeat split; auto.
  - apply orb_true_iff in C as [C|C]; [apply Nat.eqb_eq in C; assert (n = 0) as -> by lia; reflexivity|rewrite C; apply orb_true_r].
  - intros l Hl. eapply orb_ltb_mono; eauto.
  - eapply orb_ltb_mono; eauto.
Qed.

Lemma follow_mono n m K : n <= m -> follow m K -> follow n K.
Proof. intros L (H1 & H2 & H3). split; [exact H1|split; [eapply stops_mono; eauto|exact H3]]. Qed.

Lemma stops_level n t l : stops n t = true -> level_of l <= n -> find_op t (level_ops l) = None.
Proof.
  intros H L. apply stops_parts in H as (A & B & C & D & E).
  assert (I : In l all_levels) by (destruct l; cbn; tauto).
  specialize (D l I). apply orb_true_iff in D as [D|D].
  - apply Nat.ltb_lt in D. lia.
  - unfold no_level_op in D. destruct (find_op t (level_ops l)); [discriminate|reflexivity].
Qed.

Lemma stops_sel n t : stops n t = true -> 1 <= n -> kis t "." = false /\ kis t "[" = false.
Proof.
  intros H L. apply stops_parts in H as (A & B & C & D & E).
  apply orb_true_iff in C as [C|C]; [apply Nat.eqb_eq in C; lia|].
  apply andb_true_iff in C as [C1 C2]. apply negb_true_iff in C1, C2. auto.
Qed.

Lemma stops_cmp n t : stops n t = true -> 9 <= n -> cmp_stop t = true.
Proof.
  intros H L. apply stops_parts in H as (A & B & C & D & E).
  apply orb_true_iff in E as [E|E]; [apply Nat.ltb_lt in E; lia|exact E].
Qed.

Lemma stops_gen n t : stops n t = true -> kis t "(" = false /\ kis t K_string = false.
Proof. intros H. apply stops_parts in H as (A & B & _). auto. Qed.

(* next over a spelled prefix *)
Lemma next_cons t K : K <> [] -> next (t :: K) = K.
Proof. destruct K; [congruence|reflexivity]. Qed.
Lemma app_nonempty_r {A} (a b : list A) : b <> [] -> a ++ b <> [].
Proof. destruct a; cbn; [auto|discriminate]. Qed.

(* ---------- what happens after the tokens of e at level n (the continuation) ---------- *)
Definition Cont (n : nat) (e : expr) (K : toks) (r : expr * toks) : Prop :=
  match n with
  | 0 | 2 | 10 => r = (e, K)
  | 1 => Parses (MSelLoop e) K r
  | 9 => r = (e, K) /\ cmp_stop (cur K) = true
  | 3 => Parses (MLoop BMul e) K r | 4 => Parses (MLoop BAdd e) K r | 5 => Parses (MLoop BShift e) K r
  | 6 => Parses (MLoop BBitAnd e) K r | 7 => Parses (MLoop BBitXor e) K r | 8 => Parses (MLoop BBitOr e) K r
  | 11 => Parses (MLoop BAnd e) K r | _ => Parses (MLoop BOr e) K r
  end.

Definition S_ (n : nat) (e : expr) : Prop :=
  forall K r, follow (Nat.pred n) K -> Cont n e K r -> Parses (enter n) (spell e ++ K) r.

(* when nothing can extend e at level n, the continuation just returns *)
Ltac cases13 n := destruct n as [|[|[|[|[|[|[|[|[|[|[|[|[|n]]]]]]]]]]]]].

Lemma Cont_stop n e K : n <= 12 -> follow n K -> Cont n e K (e, K).
Proof.
  intros L (NE & St & Dc).
  cases13 n; cbn [Cont]; try lia; auto;
    try (apply Parses_loop_stop; eapply stops_level; [exact St|cbn; lia]).
  - (* 1: selector loop *) destruct (stops_sel _ _ St (le_n _)) as [A B].
    apply (Parses_step _ _ _ 0). cbn [step]. rewrite A, B. reflexivity.
  - split; [reflexivity|]. eapply stops_cmp; eauto.
Qed.

(* ---------- first token of a canonical spelling ---------- *)
Lemma cur_app t r K : cur ((t :: r) ++ K) = t.
Proof. reflexivity. Qed.

Definition not_sign (t : ptok) : Prop := kis t "+" = false /\ kis t "-" = false /\ kis t "~" = false.

Lemma atom_first e : atom e -> exists t r, spell e = t :: r /\ kis t "NOT" = false /\ not_sign t /\ kis t "(" = false /\ kis t "SELECT" = false.
Proof.
  intros A; destruct A; cbn [spell].
  - eexists _, _; split; [reflexivity|]. repeat split; reflexivity.
  - eexists _, _; split; [reflexivity|]. repeat split; reflexivity.
  - destruct v; eexists _, _; (split; [reflexivity|]); repeat split; reflexivity.
  - destruct v as [|c v]; [discriminate|]. unfold unsigned in H. apply negb_true_iff in H. rewrite H.
    eexists _, _; split; [reflexivity|]. repeat split; reflexivity.
  - destruct v as [|c v]; [discriminate|]. unfold unsigned in H. apply negb_true_iff in H. rewrite H.
    eexists _, _; split; [reflexivity|]. repeat split; reflexivity.
  - eexists _, _; split; [reflexivity|]. repeat split; reflexivity.
  - eexists _, _; split; [reflexivity|]. repeat split; reflexivity.
  - eexists _, _; split; [reflexivity|]. repeat split; reflexivity.
Qed.

Lemma sign_tok_kinds c : c = x2b \/ c = x2d ->
  (sign_tok c = tk "+" \/ sign_tok c = tk "-").
Proof. intros [->| ->]; [left|right]; reflexivity. Qed.

Lemma op_level_range op n : op_level op = Some n -> 3 <= n <= 12.
Proof.
  unfold op_level, bin_table. cbn [table_level].
  repeat match goal with |- context [if ?c then _ else _] => destruct c; [intros H; inversion H; lia|] end.
  discriminate.
Qed.

Lemma spell_in_values neg l a b e1 es :
  spell (EIn neg l (CValues a b (e1 :: es))) =
  spell l ++ (if neg then [tk "NOT"] else []) ++ tk "IN" :: tk "(" :: spell e1 ++ spell_more es ++ [tk ")"].
Proof. reflexivity. Qed.

Lemma can_first n e : can n e ->
  exists t r, spell e = t :: r /\ (n <= 9 -> kis t "NOT" = false) /\ (n <= 1 -> not_sign t).
Proof.
  induction 1 as [n m e H IH L|e A|e H IH|c base v Hc Hu|c v Hc Hu|op e Hop H IH Hf|e H IH|op n l r Ho Hn Hl IHl Hr IHr|op l r Ho Hl IHl Hr IHr|neg l Hl IHl|neg l v Hl IHl|neg l s x Hl IHl Hs IHs Hx IHx|neg l x Hl IHl Hx IHx|neg l e1 es Hl IHl H1 IH1 Hes|n1 n2 ns Hp|x n Hx IHx Hpl|x ix Hx IHx Hi IHi Hf|x kw ix Hx IHx Hi IHi Hk|e1 e2 es H1 IH1 H2 IH2 Hes].
  - destruct IH as (t & r & E & A & B). exists t, r. split; [exact E|]. split; intros; [apply A|apply B]; lia.
  - destruct (atom_first e A) as (t & r & E & N & Sg & _). exists t, r. auto.
  - cbn [spell]. eexists _, _; split; [reflexivity|]. split; intros; [reflexivity|repeat split; reflexivity].
  - cbn [spell]. assert (F : first_byte_is_sign (c :: v) = true) by (destruct Hc as [->| ->]; reflexivity). rewrite F.
    eexists _, _; split; [reflexivity|]. split; [intros _|intros; lia].
    destruct (sign_tok_kinds c Hc) as [->| ->]; reflexivity.
  - cbn [spell]. assert (F : first_byte_is_sign (c :: v) = true) by (destruct Hc as [->| ->]; reflexivity). rewrite F.
    eexists _, _; split; [reflexivity|]. split; [intros _|intros; lia].
    destruct (sign_tok_kinds c Hc) as [->| ->]; reflexivity.
  - cbn [spell]. eexists _, _; split; [reflexivity|]. split; [intros _|intros; lia].
    destruct Hop as [->|[->| ->]]; reflexivity.
  - cbn [spell]. eexists _, _; split; [reflexivity|]. split; intros; lia.
  - destruct IHl as (t & r0 & E & A & B). cbn [spell]. rewrite E. exists t, (r0 ++ op_toks op ++ spell r).
    split; [reflexivity|]. split; [exact A|]. pose proof (op_level_range _ _ Ho). intros; lia.
  - destruct IHl as (t & r0 & E & A & B). cbn [spell]. rewrite E. exists t, (r0 ++ op_toks op ++ spell r).
    split; [reflexivity|]. split; [intros; apply A; lia|intros; lia].
  - destruct IHl as (t & r0 & E & A & B). cbn [spell]. rewrite E. eexists t, _. split; [reflexivity|]. split; [intros; apply A; lia|intros; lia].
  - destruct IHl as (t & r0 & E & A & B). cbn [spell]. rewrite E. eexists t, _. split; [reflexivity|]. split; [intros; apply A; lia|intros; lia].
  - destruct IHl as (t & r0 & E & A & B). cbn [spell]. rewrite E. eexists t, _. split; [reflexivity|]. split; [intros; apply A; lia|intros; lia].
  - destruct IHl as (t & r0 & E & A & B). cbn [spell]. rewrite E. eexists t, _. split; [reflexivity|]. split; [intros; apply A; lia|intros; lia].
  - destruct IHl as (t & r0 & E & A & B). rewrite spell_in_values. rewrite E. eexists t, _. split; [reflexivity|]. split; [intros; apply A; lia|intros; lia].
  - cbn [spell]. eexists _, _; split; [reflexivity|]. split; intros; [reflexivity|repeat split; reflexivity].
  - destruct IHx as (t & r0 & E & A & B). cbn [spell]. rewrite E. eexists t, _. split; [reflexivity|]. split; [intros; apply A; lia|exact B].
  - destruct IHx as (t & r0 & E & A & B). cbn [spell]. rewrite E. eexists t, _. split; [reflexivity|]. split; [intros; apply A; lia|exact B].
  - destruct IHx as (t & r0 & E & A & B). cbn [spell]. rewrite E. eexists t, _. split; [reflexivity|]. split; [intros; apply A; lia|exact B].
  - cbn [spell]. eexists _, _; split; [reflexivity|]. split; intros; [reflexivity|repeat split; reflexivity].
Qed.

(* ---------- from level n to level n+1 ---------- *)
Lemma Parses_unary_skip ts r : kis (cur ts) "+" = false -> kis (cur ts) "-" = false -> kis (cur ts) "~" = false ->
  Parses MSel ts r -> Parses MUnary ts r.
Proof. intros A B C. apply Parses_via. intros rec. cbn [step]. rewrite A, B, C. reflexivity. Qed.

Lemma Parses_not_skip ts r : kis (cur ts) "NOT" = false -> Parses MCmp ts r -> Parses MNot ts r.
Proof. intros A. apply Parses_via. intros rec. cbn [step]. rewrite A. reflexivity. Qed.

Lemma Parses_cmp_stop ts e ts1 : Parses (MBin BBitOr) ts (e, ts1) -> cmp_stop (cur ts1) = true -> Parses MCmp ts (e, ts1).
Proof.
  intros H C. unfold cmp_stop in C. rewrite !andb_true_iff, !negb_true_iff in C. destruct C as ((((C1 & C2) & C3) & C4) & C5).
  destruct (find_op (cur ts1) cmp_ops) eqn:F; [discriminate|].
  common_fuel F0. at_fuel F0. apply (Parses_step _ _ _ F0). cbn [step]. run_fuel. rewrite F, C2, C3, C4, C5. reflexivity.
Qed.

Lemma lift n e : n < 12 -> can n e -> S_ n e -> S_ (S n) e.
Proof.
  intros L C H K r Fo Co. cbn [Nat.pred] in Fo.
  destruct (can_first n e C) as (t & rest & Esp & HN & HS).
  assert (F0 : follow (Nat.pred n) K) by (eapply follow_mono; [|exact Fo]; lia).
  (* e parsed at level n, then returns: nothing at level n extends it *)
  assert (Base : Parses (enter n) (spell e ++ K) (e, K)) by (apply H; [exact F0|apply Cont_stop; [lia|exact Fo]]).
  cases13 n; try lia; cbn [enter Cont] in *.
  - (* 0 -> 1 *) eapply Parses_sel; eauto.
  - (* 1 -> 2 *) subst r. rewrite Esp in *. destruct (HS (le_n _)) as (A & B & D). apply Parses_unary_skip; auto.
  - (* 2 -> 3 *) eapply (Parses_bin BMul); eauto.
  - eapply (Parses_bin BAdd); eauto.
  - eapply (Parses_bin BShift); eauto.
  - eapply (Parses_bin BBitAnd); eauto.
  - eapply (Parses_bin BBitXor); eauto.
  - eapply (Parses_bin BBitOr); eauto.
  - (* 8 -> 9 *) destruct Co as [-> Cs]. apply Parses_cmp_stop; auto.
  - (* 9 -> 10 *) subst r. rewrite Esp in *. apply Parses_not_skip; [apply HN; lia|exact Base].
  - eapply (Parses_bin BAnd); eauto.
  - eapply (Parses_bin BOr); eauto.
Qed.

Lemma lift_to n m e : n <= m -> m <= 12 -> can n e -> S_ n e -> S_ m e.
Proof.
  induction 1 as [|m L IH]; intros Lm C H; [exact H|].
  apply lift; [lia|eapply CUp; eauto|apply IH; auto; lia].
Qed.

(* ---------- the operator table, case by case ---------- *)
Lemma op_level_in op n : op_level op = Some n -> In (op, n) (map (fun '(k, m) => (bs k, m)) bin_table).
Proof.
  unfold op_level, bin_table. cbn [table_level map].
  repeat match goal with
         | |- context [if bytes_eqb ?a ?b then _ else _] =>
             let E := fresh "E" in
             destruct (bytes_eqb a b) eqn:E;
             [apply bytes_eqb_eq in E; subst; intros H; inversion H; subst; cbn; tauto|]
         end.
  discriminate.
Qed.

Lemma dotcall_nodot K : kis (cur K) "." = false -> dotcall K.
Proof. intros H A. congruence. Qed.

Lemma follow_cons n t K : stops n t = true -> kis t "." = false -> follow n (t :: K).
Proof. intros H D. split; [discriminate|split; [exact H|apply dotcall_nodot; exact D]]. Qed.

Lemma follow_cons_ge1 n t K : stops n t = true -> 1 <= n -> follow n (t :: K).
Proof. intros H L. apply follow_cons; [exact H|apply (stops_sel _ _ H L)]. Qed.

(* atoms *)
Lemma lookahead_call_ident n K f : K <> [] -> kis (cur K) "(" = false -> dotcall K ->
  lookahead_call f (t_ident n :: K) = false.
Proof.
  intros NE A D. destruct f as [|f]; [reflexivity|]. cbn [lookahead_call]. change (kis (cur (t_ident n :: K)) K_ident) with true. cbn [negb].
  rewrite (next_cons _ _ NE), A. destruct (kis (cur K) ".") eqn:B; [apply D; exact B|reflexivity].
Qed.

Lemma atom_parses e K : atom e -> follow 0 K -> Parses MLit (spell e ++ K) (e, K).
Proof.
  intros A (NE & St & Dc). destruct (stops_gen _ _ St) as [G1 G2].
  apply (Parses_step _ _ _ 0). destruct A; cbn [spell app step].
  - (* identifier *)
    cbn [id_name zident]. change (cur (t_ident n :: K)) with (t_ident n).
    change (kis (t_ident n) "NULL") with false. change (kis (t_ident n) "TRUE") with false. change (kis (t_ident n) "FALSE") with false.
    change (kis (t_ident n) K_int) with false. change (kis (t_ident n) K_float) with false. change (kis (t_ident n) K_string) with false.
    change (kis (t_ident n) K_bytes) with false. change (kis (t_ident n) K_param) with false.
    change (kis (t_ident n) "CASE" || kis (t_ident n) "IF" || kis (t_ident n) "CAST" || kis (t_ident n) "EXISTS" || kis (t_ident n) "EXTRACT"
            || kis (t_ident n) "WITH" || kis (t_ident n) "ARRAY" || kis (t_ident n) "STRUCT" || kis (t_ident n) "[" || kis (t_ident n) "NEW"
            || kis (t_ident n) "{") with false.
    change (kis (t_ident n) "(") with false. change (kis (t_ident n) K_ident) with true. cbv iota.
    unfold plain_name in H. apply andb_true_iff in H as [P1 P2]. apply negb_true_iff in P1, P2.
    unfold is_kwlike. change (kis (t_ident n) K_ident) with true. cbn [andb praw t_ident]. rewrite P1, P2. cbn [orb].
    rewrite (lookahead_call_ident n K _ NE G1 Dc). rewrite (next_cons _ _ NE), G2. cbn [andb]. reflexivity.
  - rewrite (next_cons _ _ NE). reflexivity.
  - destruct v; rewrite (next_cons _ _ NE); reflexivity.
  - destruct v as [|c v]; [discriminate|]. unfold unsigned in H. apply negb_true_iff in H. rewrite H. cbn [app].
    rewrite (next_cons _ _ NE). reflexivity.
  - destruct v as [|c v]; [discriminate|]. unfold unsigned in H. apply negb_true_iff in H. rewrite H. cbn [app].
    rewrite (next_cons _ _ NE). reflexivity.
  - rewrite (next_cons _ _ NE). reflexivity.
  - rewrite (next_cons _ _ NE). reflexivity.
  - rewrite (next_cons _ _ NE). reflexivity.
Qed.

(* ---------- no sub-query look-alike: a canonical spelling never starts (after parentheses) with SELECT ---------- *)
Definition first_real (ts : toks) : ptok := cur (skip_lparens (length ts) ts).

Lemma skip_lparens_cons f t ts : kis t "(" = false -> skip_lparens (S f) (t :: ts) = t :: ts.
Proof. intros H. cbn [skip_lparens cur]. rewrite H. reflexivity. Qed.

(* spelled expressions begin with some "(" tokens followed by a token that is neither "(" nor SELECT *)
Lemma can_lparens n e : can n e -> exists ps t r, spell e = ps ++ t :: r /\ Forall (fun p => p = tk "(") ps /\ kis t "(" = false /\ kis t "SELECT" = false.
Proof.
  induction 1 as [n m e H IH L|e A|e H IH|c base v Hc Hu|c v Hc Hu|op e Hop H IH Hf|e H IH|op n l r Ho Hn Hl IHl Hr IHr|op l r Ho Hl IHl Hr IHr|neg l Hl IHl|neg l v Hl IHl|neg l s x Hl IHl Hs IHs Hx IHx|neg l x Hl IHl Hx IHx|neg l e1 es Hl IHl H1 IH1 Hes|n1 n2 ns Hp|x n Hx IHx Hpl|x ix Hx IHx Hi IHi Hf|x kw ix Hx IHx Hi IHi Hk|e1 e2 es H1 IH1 H2 IH2 Hes].
  - exact IH.
  - destruct (atom_first e A) as (t & r & E & N & Sg & Pn & Se). exists [], t, r. rewrite E. repeat split; auto.
  - destruct IH as (ps & t & r & E & F & A & B). exists (tk "(" :: ps), t, (r ++ [tk ")"]). cbn [spell]. rewrite E.
    split; [rewrite <- app_assoc; reflexivity|]. repeat split; auto.
  - cbn [spell]. assert (F : first_byte_is_sign (c :: v) = true) by (destruct Hc as [->| ->]; reflexivity). rewrite F.
    exists [], (sign_tok c), [t_int base v]. repeat split; auto; destruct (sign_tok_kinds c Hc) as [->| ->]; reflexivity.
  - cbn [spell]. assert (F : first_byte_is_sign (c :: v) = true) by (destruct Hc as [->| ->]; reflexivity). rewrite F.
    exists [], (sign_tok c), [t_float v]. repeat split; auto; destruct (sign_tok_kinds c Hc) as [->| ->]; reflexivity.
  - cbn [spell]. eexists [], _, _. split; [reflexivity|]. repeat split; auto; destruct Hop as [->|[->| ->]]; reflexivity.
  - cbn [spell]. eexists [], _, _. split; [reflexivity|]. repeat split; auto.
  - destruct IHl as (ps & t & r0 & E & F & A & B). cbn [spell]. rewrite E. exists ps, t, (r0 ++ op_toks op ++ spell r).
    split; [rewrite <- app_assoc; reflexivity|auto].
  - destruct IHl as (ps & t & r0 & E & F & A & B). cbn [spell]. rewrite E. exists ps, t, (r0 ++ op_toks op ++ spell r).
    split; [rewrite <- app_assoc; reflexivity|auto].
  - destruct IHl as (ps & t & r0 & E & F & A & B). cbn [spell]. rewrite E. eexists ps, t, _. split; [rewrite <- app_assoc; reflexivity|auto].
  - destruct IHl as (ps & t & r0 & E & F & A & B). cbn [spell]. rewrite E. eexists ps, t, _. split; [rewrite <- app_assoc; reflexivity|auto].
  - destruct IHl as (ps & t & r0 & E & F & A & B). cbn [spell]. rewrite E. eexists ps, t, _. split; [rewrite <- app_assoc; reflexivity|auto].
  - destruct IHl as (ps & t & r0 & E & F & A & B). cbn [spell]. rewrite E. eexists ps, t, _. split; [rewrite <- app_assoc; reflexivity|auto].
  - destruct IHl as (ps & t & r0 & E & F & A & B). rewrite spell_in_values. rewrite E. eexists ps, t, _. split; [rewrite <- app_assoc; reflexivity|auto].
  - cbn [spell]. eexists [], _, _. split; [reflexivity|]. repeat split; auto.
  - destruct IHx as (ps & t & r0 & E & F & A & B). cbn [spell]. rewrite E. eexists ps, t, _. split; [rewrite <- app_assoc; reflexivity|auto].
  - destruct IHx as (ps & t & r0 & E & F & A & B). cbn [spell]. rewrite E. eexists ps, t, _. split; [rewrite <- app_assoc; reflexivity|auto].
  - destruct IHx as (ps & t & r0 & E & F & A & B). cbn [spell]. rewrite E. eexists ps, t, _. split; [rewrite <- app_assoc; reflexivity|auto].
  - destruct IH1 as (ps & t & r0 & E & F & A & B). cbn [spell]. rewrite E. eexists (tk "(" :: ps), t, _. split; [cbn [app]; rewrite <- app_assoc; reflexivity|].
    repeat split; auto.
Qed.

Lemma skip_lparens_run ps t rest f : Forall (fun p => p = tk "(") ps -> kis t "(" = false -> length ps < f ->
  skip_lparens f (ps ++ t :: rest) = t :: rest.
Proof.
  revert f; induction ps as [|p ps IH]; intros f Fa Nt L.
  - destruct f; [cbn in L; lia|]. apply skip_lparens_cons. exact Nt.
  - inversion Fa; subst. destruct f; [cbn in L; lia|]. cbn [app skip_lparens cur].
    change (kis (tk "(") "(") with true. cbv iota.
    replace (next (tk "(" :: ps ++ t :: rest)) with (ps ++ t :: rest) by (destruct ps; reflexivity).
    apply IH; auto. cbn in L. lia.
Qed.

Lemma no_subquery n e K : can n e -> maybe_subquery (tk "(" :: spell e ++ K) = false.
Proof.
  intros C. destruct (can_lparens n e C) as (ps & t & r & E & F & A & B).
  unfold maybe_subquery. change (kis (cur (tk "(" :: spell e ++ K)) "(") with true. cbn [andb].
  rewrite E. rewrite <- app_assoc. cbn [app].
  change (tk "(" :: ps ++ t :: r ++ K) with ((tk "(" :: ps) ++ t :: (r ++ K)).
  rewrite skip_lparens_run; [exact B| |exact A|].
  - constructor; auto.
  - rewrite app_length. cbn [length]. lia.
Qed.

(* ---------- the main induction ---------- *)
Lemma Parses_paren e K r0 :
  maybe_subquery (tk "(" :: spell e ++ tk ")" :: K) = false -> K <> [] ->
  Parses (MBin BOr) (spell e ++ tk ")" :: K) (e, tk ")" :: K) ->
  r0 = (EParen 0 0 e, K) -> Parses MLit (tk "(" :: spell e ++ tk ")" :: K) r0.
Proof.
  intros NS NE H ->. common_fuel F. at_fuel F. apply (Parses_step _ _ _ F). cbn [step].
  change (cur (tk "(" :: spell e ++ tk ")" :: K)) with (tk "(").
  change (kis (tk "(") "NULL") with false. change (kis (tk "(") "TRUE") with false. change (kis (tk "(") "FALSE") with false.
  change (kis (tk "(") K_int) with false. change (kis (tk "(") K_float) with false. change (kis (tk "(") K_string) with false.
  change (kis (tk "(") K_bytes) with false. change (kis (tk "(") K_param) with false.
  change (kis (tk "(") "CASE" || kis (tk "(") "IF" || kis (tk "(") "CAST" || kis (tk "(") "EXISTS" || kis (tk "(") "EXTRACT"
          || kis (tk "(") "WITH" || kis (tk "(") "ARRAY" || kis (tk "(") "STRUCT" || kis (tk "(") "[" || kis (tk "(") "NEW"
          || kis (tk "(") "{") with false.
  change (kis (tk "(") "(") with true. cbv iota. rewrite NS.
  assert (NX : next (tk "(" :: spell e ++ tk ")" :: K) = spell e ++ tk ")" :: K).
  { apply next_cons. apply app_nonempty_r. discriminate. }
  rewrite NX. run_fuel. change (kis (cur (tk ")" :: K)) ")") with true. cbv iota.
  rewrite (next_cons _ _ NE). reflexivity.
Qed.

Lemma Parses_unary_op t ts e ts1 o r0 :
  cur ts = t -> (kis t "+" = true /\ o = bs "+" \/ kis t "+" = false /\ kis t "-" = true /\ o = bs "-" \/
                 kis t "+" = false /\ kis t "-" = false /\ kis t "~" = true /\ o = bs "~") ->
  Parses MUnary (next ts) (e, ts1) ->
  r0 = (match (if kis t "~" then None
                else match e with
                     | EInt _ vend base v => if first_byte_is_sign v then None else Some (EInt (ppos t) vend base (o ++ v))
                     | EFloat _ vend v => if first_byte_is_sign v then None else Some (EFloat (ppos t) vend (o ++ v))
                     | _ => None
                     end) with
        | Some e' => (e', ts1)
        | None => (EUnary (ppos t) o e, ts1)
        end) ->
  Parses MUnary ts r0.
Proof.
  intros Ct Hop H ->. common_fuel F. at_fuel F. apply (Parses_step _ _ _ F). cbn [step]. rewrite Ct.
  destruct Hop as [(A & ->)|[(A & B & ->)|(A & B & C & ->)]]; rewrite ?A, ?B, ?C; run_fuel;
    match goal with |- context [match ?x with Some _ => _ | None => _ end] => destruct x end; reflexivity.
Qed.

Lemma Parses_not ts e ts1 : kis (cur ts) "NOT" = true -> Parses MNot (next ts) (e, ts1) ->
  Parses MNot ts (EUnary (ppos (cur ts)) (bs "NOT") e, ts1).
Proof.
  intros A H. common_fuel F. at_fuel F. apply (Parses_step _ _ _ F). cbn [step]. rewrite A. run_fuel.
Qed.

Lemma Parses_cmp_op ts l ts1 op r ts2 :
  Parses (MBin BBitOr) ts (l, ts1) -> find_op (cur ts1) cmp_ops = Some op ->
  Parses (MBin BBitOr) (next ts1) (r, ts2) -> Parses MCmp ts (EBinary op l r, ts2).
Proof.
  intros H1 Fo H2. common_fuel F. at_fuel F. apply (Parses_step _ _ _ F). cbn [step]. run_fuel. rewrite Fo. run_fuel.
Qed.

Lemma Parses_not_like ts l ts1 r ts2 :
  Parses (MBin BBitOr) ts (l, ts1) -> cur ts1 = tk "NOT" -> cur (next ts1) = tk "LIKE" ->
  Parses (MBin BBitOr) (next (next ts1)) (r, ts2) -> Parses MCmp ts (EBinary (bs "NOT LIKE") l r, ts2).
Proof.
  intros H1 C1 C2 H2. common_fuel F. at_fuel F. apply (Parses_step _ _ _ F). cbn [step]. run_fuel. rewrite C1.
  change (find_op (tk "NOT") cmp_ops) with (@None bytes). change (kis (tk "NOT") "IN") with false.
  change (kis (tk "NOT") "BETWEEN") with false. change (kis (tk "NOT") "NOT") with true. cbv iota. rewrite C2.
  change (kis (tk "LIKE") "LIKE") with true. cbv iota. run_fuel.
Qed.

Lemma spell_nonempty n e : can n e -> spell e <> [].
Proof. intros C. destruct (can_first n e C) as (t & r & E & _). rewrite E. discriminate. Qed.

Lemma optok_facts op n : op_level op = Some n ->
  (* the operator's first token stops every tighter level, and is its own level's operator (or a comparison) *)
  stops (Nat.pred n) (cur (op_toks op)) = true.
Proof.
  intros H. apply op_level_in in H. cbn in H.
  repeat (destruct H as [H|H]; [injection H as Eo En; subst op; rewrite <- En; vm_compute; reflexivity|]). destruct H.
Qed.

Lemma level_find op n lv : op_level op = Some n -> level_of lv = n -> find_op (cur (op_toks op)) (level_ops lv) = Some op.
Proof.
  intros H L. apply op_level_in in H. cbn in H.
  repeat (destruct H as [H|H]; [injection H as Eo En; subst op; rewrite <- En in L; destruct lv; try discriminate L; vm_compute; reflexivity|]).
  destruct H.
Qed.

Lemma op_toks_single op n : op_level op = Some n -> n <> 9 -> exists t, op_toks op = [t].
Proof.
  intros H N. apply op_level_in in H. cbn in H.
  repeat (destruct H as [H|H]; [injection H as Eo En; subst op; try congruence; eexists; reflexivity|]). destruct H.
Qed.

Lemma cmp_find op : op_level op = Some 9 -> op <> bs "NOT LIKE" -> exists t, op_toks op = [t] /\ find_op t cmp_ops = Some op.
Proof.
  intros H N. apply op_level_in in H. cbn in H.
  repeat (destruct H as [H|H]; [try discriminate H; injection H as Eo; subst op; try (exfalso; apply N; reflexivity); eexists; split; reflexivity|]).
  destruct H.
Qed.

Lemma lv_exists n : (3 <= n <= 8 \/ n = 11 \/ n = 12) -> exists lv, level_of lv = n.
Proof.
  intros [H|[->| ->]]; [|exists BAnd; reflexivity|exists BOr; reflexivity].
  assert (n = 3 \/ n = 4 \/ n = 5 \/ n = 6 \/ n = 7 \/ n = 8) as [->|[->|[->|[->|[->| ->]]]]] by lia;
    [exists BMul|exists BAdd|exists BShift|exists BBitAnd|exists BBitXor|exists BBitOr]; reflexivity.
Qed.

Lemma Cont_level lv e K r : Cont (level_of lv) e K r = Parses (MLoop lv e) K r.
Proof. destruct lv; reflexivity. Qed.

Lemma Parses_is_null ts l (neg : bool) K : K <> [] ->
  Parses (MBin BBitOr) ts (l, tk "IS" :: (if neg then [tk "NOT"] else []) ++ tk "NULL" :: K) -> Parses MCmp ts (EIsNull 0 neg l, K).
Proof.
  intros NE H1. common_fuel F. at_fuel F. apply (Parses_step _ _ _ F). cbn [step]. run_fuel.
  destruct neg; vm_compute; destruct K; try congruence; reflexivity.
Qed.

Lemma Parses_is_bool ts l (neg v : bool) K : K <> [] ->
  Parses (MBin BBitOr) ts (l, tk "IS" :: (if neg then [tk "NOT"] else []) ++ tk (if v then "TRUE" else "FALSE") :: K) ->
  Parses MCmp ts (EIsBool 0 neg l v, K).
Proof.
  intros NE H1. common_fuel F. at_fuel F. apply (Parses_step _ _ _ F). cbn [step]. run_fuel.
  destruct neg, v; vm_compute; destruct K; try congruence; reflexivity.
Qed.

Lemma Parses_between ts l (neg : bool) s x ts_s ts_x K : ts_s <> [] -> ts_x <> [] ->
  Parses (MBin BBitOr) ts (l, (if neg then [tk "NOT"] else []) ++ tk "BETWEEN" :: ts_s) ->
  Parses (MBin BBitOr) ts_s (s, tk "AND" :: ts_x) ->
  Parses (MBin BBitOr) ts_x (x, K) ->
  Parses MCmp ts (EBetween neg l s x, K).
Proof.
  intros N1 N2 H1 H2 H3. common_fuel F. at_fuel F. apply (Parses_step _ _ _ F). cbn [step]. run_fuel.
  destruct neg; cbn [app cur].
  - change (find_op (tk "NOT") cmp_ops) with (@None bytes). change (kis (tk "NOT") "IN") with false.
    change (kis (tk "NOT") "BETWEEN") with false. change (kis (tk "NOT") "NOT") with true. cbv iota.
    rewrite (next_cons (tk "NOT")) by discriminate. cbn [cur].
    change (kis (tk "BETWEEN") "LIKE") with false. change (kis (tk "BETWEEN") "IN") with false. change (kis (tk "BETWEEN") "BETWEEN") with true. cbv iota.
    rewrite (next_cons _ _ N1). run_fuel. unfold expect. cbn [cur]. change (kis (tk "AND") "AND") with true. cbv iota. cbn [bind].
    rewrite (next_cons _ _ N2). run_fuel.
  - change (find_op (tk "BETWEEN") cmp_ops) with (@None bytes). change (kis (tk "BETWEEN") "IN") with false.
    change (kis (tk "BETWEEN") "BETWEEN") with true. cbv iota.
    rewrite (next_cons _ _ N1). run_fuel. unfold expect. cbn [cur]. change (kis (tk "AND") "AND") with true. cbv iota. cbn [bind].
    rewrite (next_cons _ _ N2). run_fuel.
Qed.

Lemma Parses_in_unnest ts l (neg : bool) x ts_x K : ts_x <> [] -> K <> [] ->
  Parses (MBin BBitOr) ts (l, (if neg then [tk "NOT"] else []) ++ tk "IN" :: tk "UNNEST" :: tk "(" :: ts_x) ->
  Parses (MBin BOr) ts_x (x, tk ")" :: K) ->
  Parses MCmp ts (EIn neg l (CUnnest 0 0 x), K).
Proof.
  intros N1 N2 H1 H2. common_fuel F. at_fuel F. apply (Parses_step _ _ _ F). cbn [step]. run_fuel.
  destruct neg; cbn [app cur].
  - change (find_op (tk "NOT") cmp_ops) with (@None bytes). change (kis (tk "NOT") "IN") with false.
    change (kis (tk "NOT") "BETWEEN") with false. change (kis (tk "NOT") "NOT") with true. cbv iota.
    rewrite (next_cons (tk "NOT")) by discriminate. cbn [cur].
    change (kis (tk "IN") "LIKE") with false. change (kis (tk "IN") "IN") with true. cbv iota.
    rewrite (next_cons (tk "IN")) by discriminate.
    change (maybe_subquery (tk "UNNEST" :: tk "(" :: ts_x)) with false. cbv iota. cbn [cur].
    change (kis (tk "UNNEST") "(") with false. change (kis (tk "UNNEST") "UNNEST") with true. cbv iota.
    rewrite (next_cons (tk "UNNEST")) by discriminate. unfold expect at 1. cbn [cur]. change (kis (tk "(") "(") with true. cbv iota. cbn [bind].
    rewrite (next_cons _ _ N1). run_fuel. unfold expect. cbn [cur]. change (kis (tk ")") ")") with true. cbv iota. cbn [bind].
    rewrite (next_cons _ _ N2). reflexivity.
  - change (find_op (tk "IN") cmp_ops) with (@None bytes). change (kis (tk "IN") "IN") with true. cbv iota.
    rewrite (next_cons (tk "IN")) by discriminate.
    change (maybe_subquery (tk "UNNEST" :: tk "(" :: ts_x)) with false. cbv iota. cbn [cur].
    change (kis (tk "UNNEST") "(") with false. change (kis (tk "UNNEST") "UNNEST") with true. cbv iota.
    rewrite (next_cons (tk "UNNEST")) by discriminate. unfold expect at 1. cbn [cur]. change (kis (tk "(") "(") with true. cbv iota. cbn [bind].
    rewrite (next_cons _ _ N1). run_fuel. unfold expect. cbn [cur]. change (kis (tk ")") ")") with true. cbv iota. cbn [bind].
    rewrite (next_cons _ _ N2). reflexivity.
Qed.

Lemma length_spell_more es : length es <= length (spell_more es).
Proof. induction es as [|x r IH]; cbn [spell_more length]; [lia|]. rewrite app_length. lia. Qed.

(* the loop of parseCommaSeparatedList over the spelled further elements *)
Lemma more_spell : forall es K acc, K <> [] ->
  Forall (fun e => S_ 12 e) es ->
  exists F0, forall F n, F0 <= F -> length es < n ->
    more (P F (MBin BOr)) n acc (spell_more es ++ tk ")" :: K) = Ok ((acc ++ es)%list, tk ")" :: K).
Proof.
  induction es as [|e r IH]; intros K acc NE Fa.
  - exists 0. intros F n _ L. destruct n as [|n]; [cbn in L; lia|]. cbn [spell_more app more cur].
    change (kis (tk ")") ",") with false. cbv iota. rewrite app_nil_r. reflexivity.
  - inversion Fa as [|? ? Se Fr]; subst.
    destruct (IH K (acc ++ [e])%list NE Fr) as [F1 H1].
    set (K' := spell_more r ++ tk ")" :: K).
    assert (NK : K' <> []) by (unfold K'; destruct (spell_more r); discriminate).
    assert (PE : Parses (MBin BOr) (spell e ++ K') (e, K')).
    { apply Se.
      - unfold K'. destruct r as [|x r']; cbn [spell_more app]; apply follow_cons; vm_compute; reflexivity.
      - cbn [Cont]. apply Parses_loop_stop. unfold K'. destruct r as [|x r']; cbn [spell_more app cur]; reflexivity. }
    destruct (Parses_fuel _ _ _ PE) as [F2 H2].
    exists (F1 + F2). intros F n LF Ln. destruct n as [|n]; [cbn in Ln; lia|].
    change (spell_more (e :: r) ++ tk ")" :: K) with (tk "," :: (spell e ++ spell_more r) ++ tk ")" :: K).
    rewrite <- app_assoc. fold K'. cbn [more cur]. change (kis (tk ",") ",") with true. cbv iota. assert (NX : spell e ++ K' <> []) by (apply app_nonempty_r; exact NK). rewrite (next_cons _ _ NX).
    rewrite (H2 F ltac:(lia)). cbn [bind]. unfold K'. rewrite (H1 F n ltac:(lia) ltac:(cbn [length] in Ln; lia)).
    rewrite <- app_assoc. reflexivity.
Qed.

Lemma Parses_in_values ts l (neg : bool) e1 es ts_e K : ts_e <> [] -> K <> [] ->
  maybe_subquery (tk "(" :: ts_e) = false ->
  Parses (MBin BBitOr) ts (l, (if neg then [tk "NOT"] else []) ++ tk "IN" :: tk "(" :: ts_e) ->
  Parses (MBin BOr) ts_e (e1, spell_more es ++ tk ")" :: K) ->
  Forall (fun e => S_ 12 e) es ->
  Parses MCmp ts (EIn neg l (CValues 0 0 (e1 :: es)), K).
Proof.
  intros N1 N2 MS H1 H2 Fa. destruct (more_spell es K [e1] N2 Fa) as [F0 HM].
  common_fuel F. set (G := F + F0). assert (GF : F <= G) by (unfold G; lia). assert (GF0 : F0 <= G) by (unfold G; lia).
  repeat match goal with
         | Hf : forall f, ?f0 <= f -> P f ?m ?t = Ok ?r |- _ =>
             let E := fresh "E" in assert (E : P G m t = Ok r) by (apply Hf; unfold G, F; lia); clear Hf
         end.
  apply (Parses_step _ _ _ G). cbn [step]. run_fuel.
  assert (LM : length es < length (spell_more es ++ tk ")" :: K)).
  { rewrite app_length. cbn [length]. pose proof (length_spell_more es). lia. }
  destruct neg; cbn [app cur].
  - change (find_op (tk "NOT") cmp_ops) with (@None bytes). change (kis (tk "NOT") "IN") with false.
    change (kis (tk "NOT") "BETWEEN") with false. change (kis (tk "NOT") "NOT") with true. cbv iota.
    rewrite (next_cons (tk "NOT")) by discriminate. cbn [cur].
    change (kis (tk "IN") "LIKE") with false. change (kis (tk "IN") "IN") with true. cbv iota.
    rewrite (next_cons (tk "IN")) by discriminate. rewrite MS. cbv iota. cbn [cur]. change (kis (tk "(") "(") with true. cbv iota.
    rewrite (next_cons _ _ N1). run_fuel. rewrite (HM G _ GF0 LM). cbn [bind app].
    unfold expect. cbn [cur]. change (kis (tk ")") ")") with true. cbv iota. cbn [bind]. rewrite (next_cons _ _ N2). reflexivity.
  - change (find_op (tk "IN") cmp_ops) with (@None bytes). change (kis (tk "IN") "IN") with true. cbv iota.
    rewrite (next_cons (tk "IN")) by discriminate. rewrite MS. cbv iota. cbn [cur]. change (kis (tk "(") "(") with true. cbv iota.
    rewrite (next_cons _ _ N1). run_fuel. rewrite (HM G _ GF0 LM). cbn [bind app].
    unfold expect. cbn [cur]. change (kis (tk ")") ")") with true. cbv iota. cbn [bind]. rewrite (next_cons _ _ N2). reflexivity.
Qed.

(* ---------- field access, subscripts, tuples ---------- *)
Lemma mk_ident_t n : mk_ident (t_ident n) = zident n.
Proof. reflexivity. Qed.

(* what the selector loop builds from its accumulator and one more name *)
Definition extend (acc : expr) (i : ident) : expr :=
  match acc with EIdent a => EPath [a; i] | EPath ids => EPath (ids ++ [i]) | _ => ESelector acc i end.

Lemma Parses_selloop_dot acc n K r : K <> [] ->
  Parses (MSelLoop (extend acc (zident n))) K r -> Parses (MSelLoop acc) (tk "." :: t_ident n :: K) r.
Proof.
  intros NE H. common_fuel F. at_fuel F. apply (Parses_step _ _ _ F). cbn [step].
  change (cur (tk "." :: t_ident n :: K)) with (tk "."). change (kis (tk ".") ".") with true. cbv iota.
  rewrite (next_cons (tk ".")) by discriminate. change (cur (t_ident n :: K)) with (t_ident n).
  change (kis (t_ident n) "*") with false. cbv iota.
  unfold parse_ident, expect. change (cur (t_ident n :: K)) with (t_ident n). change (kis (t_ident n) K_ident) with true. cbv iota. cbn [bind].
  rewrite (next_cons _ _ NE). rewrite mk_ident_t. unfold extend in E. exact E.
Qed.

Lemma Parses_selloop_index acc ix ts_ix K r : ts_ix <> [] -> K <> [] ->
  subscript_word (cur ts_ix) = false ->
  Parses (MBin BOr) ts_ix (ix, tk "]" :: K) ->
  Parses (MSelLoop (EIndex 0 acc (SExprArg ix))) K r -> Parses (MSelLoop acc) (tk "[" :: ts_ix) r.
Proof.
  intros N1 N2 SW H1 H2. common_fuel F. at_fuel F. apply (Parses_step _ _ _ F). cbn [step].
  change (cur (tk "[" :: ts_ix)) with (tk "["). change (kis (tk "[") ".") with false. change (kis (tk "[") "[") with true. cbv iota.
  rewrite (next_cons _ _ N1).
  unfold subscript_word in SW. apply orb_false_iff in SW as [SW S4]. apply orb_false_iff in SW as [SW S3]. apply orb_false_iff in SW as [S1 S2].
  rewrite S1, S2, S3, S4. run_fuel. unfold expect. cbn [cur]. change (kis (tk "]") "]") with true. cbv iota. cbn [bind].
  rewrite (next_cons _ _ N2). assumption.
Qed.

Lemma Parses_selloop_indexkw acc kw ix ts_ix K r : ts_ix <> [] -> K <> [] -> position_keyword kw ->
  Parses (MBin BOr) ts_ix (ix, tk ")" :: tk "]" :: K) ->
  Parses (MSelLoop (EIndex 0 acc (SKeyword 0 0 kw ix))) K r ->
  Parses (MSelLoop acc) (tk "[" :: t_ident kw :: tk "(" :: ts_ix) r.
Proof.
  intros N1 N2 PK H1 H2. common_fuel F. at_fuel F. apply (Parses_step _ _ _ F). cbn [step].
  change (cur (tk "[" :: t_ident kw :: tk "(" :: ts_ix)) with (tk "["). change (kis (tk "[") ".") with false. change (kis (tk "[") "[") with true. cbv iota.
  rewrite (next_cons (tk "[")) by discriminate. change (cur (t_ident kw :: tk "(" :: ts_ix)) with (t_ident kw).
  rewrite (next_cons (t_ident kw)) by discriminate.
  destruct PK as [->|[->|[-> | ->]]];
    repeat match goal with |- context [is_ident_ci ?t ?w] => let v := eval vm_compute in (is_ident_ci t w) in change (is_ident_ci t w) with v end;
    cbv iota; unfold expect at 1; cbn [cur]; change (kis (tk "(") "(") with true; cbv iota; cbn [bind];
    rewrite (next_cons _ _ N1); run_fuel; unfold expect; cbn [cur]; change (kis (tk ")") ")") with true; cbv iota; cbn [bind];
    rewrite (next_cons (tk ")")) by discriminate; cbn [cur]; change (kis (tk "]") "]") with true; cbv iota; cbn [bind];
    rewrite (next_cons _ _ N2); assumption.
Qed.

Lemma spell_tuple a b e1 e2 es :
  spell (ETuple a b (e1 :: e2 :: es)) = tk "(" :: spell e1 ++ tk "," :: spell e2 ++ spell_more es ++ [tk ")"].
Proof. reflexivity. Qed.

Lemma Parses_tuple e1 e2 es ts1 ts2 K : ts1 <> [] -> ts2 <> [] -> K <> [] ->
  maybe_subquery (tk "(" :: ts1) = false ->
  Parses (MBin BOr) ts1 (e1, tk "," :: ts2) ->
  Parses (MBin BOr) ts2 (e2, spell_more es ++ tk ")" :: K) ->
  Forall (fun e => S_ 12 e) es ->
  Parses MLit (tk "(" :: ts1) (ETuple 0 0 (e1 :: e2 :: es), K).
Proof.
  intros N1 N2 N3 MS H1 H2 Fa. destruct (more_spell es K [e2] N3 Fa) as [F0 HM].
  common_fuel F. set (G := F + F0). assert (GF0 : F0 <= G) by (unfold G; lia).
  repeat match goal with
         | Hf : forall f, ?f0 <= f -> P f ?m ?t = Ok ?r |- _ =>
             let E := fresh "E" in assert (E : P G m t = Ok r) by (apply Hf; unfold G, F; lia); clear Hf
         end.
  apply (Parses_step _ _ _ G). cbn [step].
  change (cur (tk "(" :: ts1)) with (tk "(").
  change (kis (tk "(") "NULL") with false. change (kis (tk "(") "TRUE") with false. change (kis (tk "(") "FALSE") with false.
  change (kis (tk "(") K_int) with false. change (kis (tk "(") K_float) with false. change (kis (tk "(") K_string) with false.
  change (kis (tk "(") K_bytes) with false. change (kis (tk "(") K_param) with false.
  change (kis (tk "(") "CASE" || kis (tk "(") "IF" || kis (tk "(") "CAST" || kis (tk "(") "EXISTS" || kis (tk "(") "EXTRACT"
          || kis (tk "(") "WITH" || kis (tk "(") "ARRAY" || kis (tk "(") "STRUCT" || kis (tk "(") "[" || kis (tk "(") "NEW"
          || kis (tk "(") "{") with false.
  change (kis (tk "(") "(") with true. cbv iota. rewrite MS.
  rewrite (next_cons _ _ N1). run_fuel. change (cur (tk "," :: ts2)) with (tk ",").
  change (kis (tk ",") ")") with false. change (kis (tk ",") ",") with true. cbn [negb]. cbv iota.
  rewrite (next_cons _ _ N2). run_fuel.
  assert (LM : length es < length (spell_more es ++ tk ")" :: K)).
  { rewrite app_length. cbn [length]. pose proof (length_spell_more es). lia. }
  rewrite (HM G _ GF0 LM). cbn [bind app].
  unfold expect. cbn [cur]. change (kis (tk ")") ")") with true. cbv iota. cbn [bind]. rewrite (next_cons _ _ N3). reflexivity.
Qed.

(* the look-ahead for a function call walks over a whole dotted name *)
Lemma la_path : forall ns n K f, K <> [] -> kis (cur K) "(" = false -> dotcall K ->
  lookahead_call f (t_ident n :: path_tail (map zident ns) ++ K) = false.
Proof.
  induction ns as [|m ns IH]; intros n K f NE A D.
  - apply lookahead_call_ident; auto.
  - destruct f as [|f]; [reflexivity|]. cbn [map path_tail app id_name zident].
    set (T := path_tail (map zident ns) ++ K). cbn [lookahead_call].
    change (cur (t_ident n :: tk "." :: t_ident m :: T)) with (t_ident n). change (kis (t_ident n) K_ident) with true. cbn [negb].
    rewrite (next_cons (t_ident n)) by discriminate. change (cur (tk "." :: t_ident m :: T)) with (tk ".").
    change (kis (tk ".") "(") with false. change (kis (tk ".") ".") with true. cbv iota.
    rewrite (next_cons (tk ".")) by discriminate. apply IH; auto.
Qed.

Lemma path_loop : forall ns ids K r, K <> [] ->
  Parses (MSelLoop (EPath (ids ++ map zident ns))) K r ->
  Parses (MSelLoop (EPath ids)) (path_tail (map zident ns) ++ K) r.
Proof.
  induction ns as [|m ns IH]; intros ids K r NE H.
  - cbn [map path_tail app] in *. rewrite app_nil_r in H. exact H.
  - cbn [map path_tail app id_name zident]. apply Parses_selloop_dot.
    + apply app_nonempty_r, NE.
    + cbn [extend]. apply IH; [exact NE|]. rewrite <- app_assoc. exact H.
Qed.

Theorem can_S n e : can n e -> n <= 12 -> S_ n e.
Proof.
  intros C. induction C as [n m e H IH L|e A|e H IH|c base v Hc Hu|c v Hc Hu|op e Hop H IH Hf|e H IH|op n l r Ho Hn Hl IHl Hr IHr|op l r Ho Hl IHl Hr IHr
                           |neg l Hl IHl|neg l v Hl IHl|neg l s x Hl IHl Hs IHs Hx IHx|neg l x Hl IHl Hx IHx|neg l e1 es Hl IHl H1 IH1 Hes IHes
                           |n1 n2 ns Hp|x n Hx IHx Hpl|x ix Hx IHx Hi IHi Hf|x kw ix Hx IHx Hi IHi Hk|e1 e2 es H1 IH1 H2 IH2 Hes IHes] using can_ind';
    intros L12.
  - (* cumulativity *) apply (lift_to n m); auto. apply IH. lia.
  - (* atom *) intros K r Fo Co. cbn in Co. subst r. apply atom_parses; auto.
  - (* ( e ) *)
    intros K r (NE & St & Dc) Co. cbn in Co. subst r. cbn [spell enter].
    replace ((tk "(" :: spell e ++ [tk ")"]) ++ K) with (tk "(" :: spell e ++ tk ")" :: K) by (cbn; rewrite <- app_assoc; reflexivity).
    eapply Parses_paren; eauto.
    + replace (spell e ++ tk ")" :: K) with (spell e ++ (tk ")" :: K)) by reflexivity. eapply no_subquery; eauto.
    + apply (IH (le_n _)). { apply follow_cons; vm_compute; reflexivity. }
      cbn [Cont]. apply Parses_loop_stop. reflexivity.
  - (* signed integer literal *)
    intros K r (NE & St & Dc) Co. cbn in Co. subst r. cbn [spell enter].
    assert (F : first_byte_is_sign (c :: v) = true) by (destruct Hc as [->| ->]; reflexivity). rewrite F. cbn [app].
    destruct (stops_sel _ _ St (le_n _)) as [D1 D2].
    eapply (Parses_unary_op (sign_tok c) _ (EInt 0 0 base v) K (if beq c x2b then bs "+" else bs "-")).
    + reflexivity.
    + destruct Hc as [->| ->]; [left|right; left]; repeat split; reflexivity.
    + rewrite next_cons by discriminate.
      apply Parses_unary_skip; try reflexivity.
      eapply Parses_sel.
      * apply (Parses_step _ _ _ 0). cbn [step]. rewrite (next_cons _ _ NE). reflexivity.
      * apply (Parses_step _ _ _ 0). cbn [step]. rewrite D1, D2. reflexivity.
    + assert (NS : first_byte_is_sign v = false) by (unfold unsigned in Hu; destruct v; [discriminate|apply negb_true_iff in Hu; exact Hu]).
      rewrite NS. destruct Hc as [->| ->]; reflexivity.
  - (* signed float literal *)
    intros K r (NE & St & Dc) Co. cbn in Co. subst r. cbn [spell enter].
    assert (F : first_byte_is_sign (c :: v) = true) by (destruct Hc as [->| ->]; reflexivity). rewrite F. cbn [app].
    destruct (stops_sel _ _ St (le_n _)) as [D1 D2].
    eapply (Parses_unary_op (sign_tok c) _ (EFloat 0 0 v) K (if beq c x2b then bs "+" else bs "-")).
    + reflexivity.
    + destruct Hc as [->| ->]; [left|right; left]; repeat split; reflexivity.
    + rewrite next_cons by discriminate.
      apply Parses_unary_skip; try reflexivity.
      eapply Parses_sel.
      * apply (Parses_step _ _ _ 0). cbn [step]. rewrite (next_cons _ _ NE). reflexivity.
      * apply (Parses_step _ _ _ 0). cbn [step]. rewrite D1, D2. reflexivity.
    + assert (NS : first_byte_is_sign v = false) by (unfold unsigned in Hu; destruct v; [discriminate|apply negb_true_iff in Hu; exact Hu]).
      rewrite NS. destruct Hc as [->| ->]; reflexivity.
  - (* unary + - ~ *)
    intros K r Fo Co. cbn in Co. subst r. cbn [spell enter app].
    set (t := {| pk := op; praw := op; pstr := []; ppos := 0; pend := 0; pbase := 0 |}).
    assert (NEs : spell e ++ K <> []) by (apply app_nonempty_r; apply Fo).
    eapply (Parses_unary_op t _ e K op).
    + reflexivity.
    + destruct Hop as [->|[->| ->]]; [left|right; left|right; right]; repeat split; reflexivity.
    + rewrite (next_cons _ _ NEs). apply (IH L12 K (e, K)); [exact Fo|reflexivity].
    + destruct Hf as [->|Hf].
      * reflexivity.
      * destruct Hop as [->|[->| ->]]; cbn [kis]; try reflexivity;
          (destruct e; try reflexivity; cbn in Hf; apply negb_false_iff in Hf; rewrite Hf; reflexivity).
  - (* NOT e *)
    intros K r Fo Co. cbn in Co. subst r. cbn [spell enter app].
    assert (NEs : spell e ++ K <> []) by (apply app_nonempty_r; apply Fo).
    pose proof (Parses_not (tk "NOT" :: spell e ++ K) e K eq_refl) as PN. rewrite (next_cons _ _ NEs) in PN.
    apply PN. apply (IH L12 K (e, K)); [exact Fo|reflexivity].
  - (* left-associative binary operator *)
    pose proof (op_level_range _ _ Ho) as Rg.
    destruct (lv_exists n ltac:(lia)) as [lv Hlv].
    intros K rr Fo Co. cbn [spell]. rewrite <- !app_assoc.
    destruct (op_toks_single op n Ho ltac:(lia)) as [t Et].
    assert (NEr : spell r ++ K <> []) by (apply app_nonempty_r; apply Fo).
    apply (IHl L12).
    + (* the operator token stops every tighter level *)
      rewrite Et. apply follow_cons_ge1; [pose proof (optok_facts op n Ho) as S0; rewrite Et in S0; exact S0|lia].
    + rewrite <- Hlv. rewrite Cont_level. rewrite <- Hlv in Co. rewrite Cont_level in Co.
      eapply Parses_loop_go.
      * pose proof (level_find op n lv Ho Hlv) as Fd. rewrite Et in *. cbn [app cur]. exact Fd.
      * rewrite Et. cbn [app]. rewrite (next_cons _ _ NEr). rewrite sub_mode_level, Hlv.
        apply (IHr ltac:(lia) K (r, K)); [eapply follow_mono; [|exact Fo]; lia|apply Cont_stop; [lia|exact Fo]].
      * exact Co.
  - (* comparison *)
    intros K rr Fo Co. cbn [Cont] in Co. destruct Co as [-> Cs]. cbn [spell enter]. rewrite <- !app_assoc.
    assert (NEr : spell r ++ K <> []) by (apply app_nonempty_r; apply Fo).
    cbn [Nat.pred] in Fo.
    assert (PR : Parses (MBin BBitOr) (spell r ++ K) (r, K)).
    { apply (IHr ltac:(lia) K (r, K)); [eapply follow_mono; [|exact Fo]; lia|]. cbn [Cont]. apply Parses_loop_stop.
      eapply (stops_level 8 _ BBitOr); [apply Fo|reflexivity]. }
    destruct (bytes_eqb op (bs "NOT LIKE")) eqn:ENL.
    + apply bytes_eqb_eq in ENL. subst op. change (op_toks (bs "NOT LIKE")) with [tk "NOT"; tk "LIKE"]. cbn [app].
      eapply Parses_not_like.
      * apply (IHl ltac:(lia)). { apply follow_cons; vm_compute; reflexivity. } cbn [Cont]. apply Parses_loop_stop. reflexivity.
      * reflexivity.
      * reflexivity.
      * rewrite (next_cons (tk "NOT")) by discriminate. rewrite (next_cons _ _ NEr). exact PR.
    + destruct (cmp_find op Ho) as (t & Et & Ft). { intros ->. rewrite bytes_eqb_refl in ENL. discriminate. }
      rewrite Et. cbn [app].
      eapply Parses_cmp_op.
      * apply (IHl ltac:(lia)).
        { apply follow_cons_ge1; [|cbn; lia]. pose proof (optok_facts op 9 Ho) as S0. rewrite Et in S0. eapply stops_mono; [|exact S0]. cbn; lia. }
        cbn [Cont]. apply Parses_loop_stop.
        pose proof (optok_facts op 9 Ho) as S0. rewrite Et in S0. cbn [cur] in S0. eapply (stops_level 8 _ BBitOr); [exact S0|reflexivity].
      * exact Ft.
      * rewrite (next_cons _ _ NEr). exact PR.
  - (* IS [NOT] NULL *)
    intros K rr Fo Co. cbn [Cont] in Co. destruct Co as [-> Cs]. cbn [spell enter]. rewrite <- app_assoc.
    replace ((tk "IS" :: (if neg then [tk "NOT"] else []) ++ [tk "NULL"]) ++ K) with (tk "IS" :: (if neg then [tk "NOT"] else []) ++ tk "NULL" :: K)
      by (destruct neg; reflexivity).
    apply Parses_is_null; [apply Fo|].
    apply (IHl ltac:(lia)).
    + apply follow_cons; vm_compute; reflexivity.
    + cbn [Cont]. apply Parses_loop_stop. reflexivity.
  - (* IS [NOT] TRUE / FALSE *)
    intros K rr Fo Co. cbn [Cont] in Co. destruct Co as [-> Cs]. cbn [spell enter]. rewrite <- app_assoc.
    replace ((tk "IS" :: (if neg then [tk "NOT"] else []) ++ [tk (if v then "TRUE" else "FALSE")]) ++ K)
      with (tk "IS" :: (if neg then [tk "NOT"] else []) ++ tk (if v then "TRUE" else "FALSE") :: K) by (destruct neg; reflexivity).
    apply Parses_is_bool; [apply Fo|].
    apply (IHl ltac:(lia)).
    + apply follow_cons; vm_compute; reflexivity.
    + cbn [Cont]. apply Parses_loop_stop. reflexivity.
  - (* [NOT] BETWEEN s AND x *)
    intros K rr Fo Co. cbn [Cont] in Co. destruct Co as [-> Cs]. cbn [spell enter]. rewrite <- app_assoc.
    replace (((if neg then [tk "NOT"] else []) ++ tk "BETWEEN" :: spell s ++ tk "AND" :: spell x) ++ K)
      with ((if neg then [tk "NOT"] else []) ++ tk "BETWEEN" :: spell s ++ tk "AND" :: spell x ++ K)
      by (destruct neg; cbn [app]; rewrite <- ?app_assoc; reflexivity).
    cbn [Nat.pred] in Fo.
    assert (NEx : spell x ++ K <> []) by (apply app_nonempty_r; apply Fo).
    apply (Parses_between _ l neg s x (spell s ++ tk "AND" :: spell x ++ K) (spell x ++ K) K).
    + apply app_nonempty_r. discriminate.
    + exact NEx.
    + apply (IHl ltac:(lia)).
      * destruct neg; apply follow_cons; vm_compute; reflexivity.
      * cbn [Cont]. apply Parses_loop_stop. destruct neg; reflexivity.
    + apply (IHs ltac:(lia)).
      * apply follow_cons; vm_compute; reflexivity.
      * cbn [Cont]. apply Parses_loop_stop. reflexivity.
    + apply (IHx ltac:(lia) K (x, K)); [eapply follow_mono; [|exact Fo]; lia|]. cbn [Cont]. apply Parses_loop_stop.
      eapply (stops_level 8 _ BBitOr); [apply Fo|reflexivity].
  - (* [NOT] IN UNNEST ( x ) *)
    intros K rr Fo Co. cbn [Cont] in Co. destruct Co as [-> Cs]. cbn [spell enter]. rewrite <- app_assoc.
    replace (((if neg then [tk "NOT"] else []) ++ tk "IN" :: tk "UNNEST" :: tk "(" :: spell x ++ [tk ")"]) ++ K)
      with ((if neg then [tk "NOT"] else []) ++ tk "IN" :: tk "UNNEST" :: tk "(" :: spell x ++ tk ")" :: K)
      by (destruct neg; cbn [app]; rewrite <- ?app_assoc; reflexivity).
    apply (Parses_in_unnest _ l neg x (spell x ++ tk ")" :: K) K).
    + apply app_nonempty_r. discriminate.
    + apply Fo.
    + apply (IHl ltac:(lia)).
      * destruct neg; apply follow_cons; vm_compute; reflexivity.
      * cbn [Cont]. apply Parses_loop_stop. destruct neg; reflexivity.
    + apply (IHx (le_n _)). { apply follow_cons; vm_compute; reflexivity. }
      cbn [Cont]. apply Parses_loop_stop. reflexivity.
  - (* [NOT] IN ( e1 , ... ) *)
    intros K rr Fo Co. cbn [Cont] in Co. destruct Co as [-> Cs]. cbn [enter]. rewrite spell_in_values. rewrite <- app_assoc.
    replace (((if neg then [tk "NOT"] else []) ++ tk "IN" :: tk "(" :: spell e1 ++ spell_more es ++ [tk ")"]) ++ K)
      with ((if neg then [tk "NOT"] else []) ++ tk "IN" :: tk "(" :: spell e1 ++ spell_more es ++ tk ")" :: K)
      by (destruct neg; cbn [app]; rewrite <- ?app_assoc; reflexivity).
    assert (NE2 : spell_more es ++ tk ")" :: K <> []) by (destruct (spell_more es); discriminate).
    apply (Parses_in_values _ l neg e1 es (spell e1 ++ spell_more es ++ tk ")" :: K) K).
    + apply app_nonempty_r. exact NE2.
    + apply Fo.
    + eapply no_subquery; eauto.
    + apply (IHl ltac:(lia)).
      * destruct neg; apply follow_cons; vm_compute; reflexivity.
      * cbn [Cont]. apply Parses_loop_stop. destruct neg; reflexivity.
    + apply (IH1 (le_n _)).
      * destruct es as [|x r']; cbn [spell_more app]; apply follow_cons; vm_compute; reflexivity.
      * cbn [Cont]. apply Parses_loop_stop. destruct es as [|x r']; cbn [spell_more app cur]; reflexivity.
    + rewrite Forall_forall in *. intros x Hx. apply (IHes x Hx). lia.
  - (* a . b . c *)
    intros K r (NE & St & Dc) Co. cbn [Cont] in Co. cbn [spell enter id_name zident path_tail app].
    set (T := path_tail (map zident ns) ++ K).
    assert (NT : T <> []) by (apply app_nonempty_r, NE).
    eapply Parses_sel.
    + apply (atom_parses (EIdent (zident n1)) (tk "." :: t_ident n2 :: T) (AIdent n1 Hp)).
      split; [discriminate|]. split; [reflexivity|]. intros _ f. rewrite (next_cons (tk ".")) by discriminate.
      apply la_path; [exact NE|apply (stops_gen _ _ St)|exact Dc].
    + apply Parses_selloop_dot; [exact NT|]. cbn [extend]. apply path_loop; [exact NE|]. exact Co.
  - (* x . name *)
    intros K r (NE & St & Dc) Co. cbn [Cont] in Co. cbn [spell enter]. rewrite <- app_assoc. cbn [app].
    apply (IHx ltac:(lia)).
    + split; [discriminate|]. split; [reflexivity|]. intros _ f. rewrite (next_cons (tk ".")) by discriminate.
      apply lookahead_call_ident; [exact NE|apply (stops_gen _ _ St)|exact Dc].
    + cbn [Cont]. apply Parses_selloop_dot; [exact NE|]. destruct x; try discriminate Hpl; exact Co.
  - (* x [ ix ] *)
    intros K r (NE & St & Dc) Co. cbn [Cont] in Co. cbn [spell enter]. rewrite <- app_assoc. cbn [app]. rewrite <- app_assoc. cbn [app].
    apply (IHx ltac:(lia)).
    + apply follow_cons; vm_compute; reflexivity.
    + cbn [Cont]. apply (Parses_selloop_index x ix (spell ix ++ tk "]" :: K) K r).
      * apply app_nonempty_r. discriminate.
      * exact NE.
      * destruct (can_first 12 ix Hi) as (t & r0 & E & _). unfold free_subscript in Hf. rewrite E in *. cbn [app cur].
        apply negb_true_iff in Hf. exact Hf.
      * apply (IHi (le_n _)); [apply follow_cons; vm_compute; reflexivity|]. cbn [Cont]. apply Parses_loop_stop. reflexivity.
      * exact Co.
  - (* x [ OFFSET ( ix ) ] *)
    intros K r (NE & St & Dc) Co. cbn [Cont] in Co. cbn [spell enter]. rewrite <- app_assoc. cbn [app]. rewrite <- app_assoc. cbn [app].
    apply (IHx ltac:(lia)).
    + apply follow_cons; vm_compute; reflexivity.
    + cbn [Cont]. apply (Parses_selloop_indexkw x kw ix (spell ix ++ tk ")" :: tk "]" :: K) K r).
      * apply app_nonempty_r. discriminate.
      * exact NE.
      * exact Hk.
      * apply (IHi (le_n _)); [apply follow_cons; vm_compute; reflexivity|]. cbn [Cont]. apply Parses_loop_stop. reflexivity.
      * exact Co.
  - (* ( e1 , e2 , ... ) *)
    intros K r (NE & St & Dc) Co. cbn in Co. subst r. rewrite spell_tuple. cbn [enter app].
    rewrite <- app_assoc. cbn [app]. rewrite <- app_assoc. rewrite <- app_assoc. cbn [app].
    assert (NE3 : spell_more es ++ tk ")" :: K <> []) by (destruct (spell_more es); discriminate).
    assert (NE2 : spell e2 ++ spell_more es ++ tk ")" :: K <> []) by (apply app_nonempty_r; exact NE3).
    apply (Parses_tuple e1 e2 es (spell e1 ++ tk "," :: spell e2 ++ spell_more es ++ tk ")" :: K) (spell e2 ++ spell_more es ++ tk ")" :: K) K).
    + apply app_nonempty_r. discriminate.
    + exact NE2.
    + exact NE.
    + eapply no_subquery; eauto.
    + apply (IH1 (le_n _)); [apply follow_cons; vm_compute; reflexivity|]. cbn [Cont]. apply Parses_loop_stop. reflexivity.
    + apply (IH2 (le_n _)).
      * destruct es as [|x r']; cbn [spell_more app]; apply follow_cons; vm_compute; reflexivity.
      * cbn [Cont]. apply Parses_loop_stop. destruct es as [|x r']; cbn [spell_more app cur]; reflexivity.
    + rewrite Forall_forall in *. intros x Hx. apply (IHes x Hx). lia.
Qed.

(* ---------- the theorem ---------- *)
Theorem parse_spell e : can 12 e -> Parses (MBin BOr) (spell e ++ [eof_tok]) (e, [eof_tok]).
Proof.
  intros C. apply (can_S 12 e C (le_n _)).
  - apply follow_cons; vm_compute; reflexivity.
  - cbn [Cont]. apply Parses_loop_stop. reflexivity.
Qed.

(* with the fuel parse_expr actually uses: the same answer, unless it runs out of fuel *)
Corollary parse_expr_spell e : can 12 e ->
  parse_expr (spell e ++ [eof_tok]) = Ok (e, [eof_tok]) \/ parse_expr (spell e ++ [eof_tok]) = Fuel.
Proof. intros C. apply parse_expr_of_Parses. apply parse_spell. exact C. Qed.

(* the grouping is unique: whatever amount of fuel, no other tree comes out *)
Corollary grouping_unique e e' rest f : can 12 e -> P f (MBin BOr) (spell e ++ [eof_tok]) = Ok (e', rest) -> e' = e /\ rest = [eof_tok].
Proof.
  intros C H. pose proof (Parses_det _ _ _ _ (parse_spell e C) (ex_intro _ f H)) as E. inversion E. auto.
Qed.

(* ---------- the printer's view: canonical trees need no parenthesis ---------- *)
(* level the table assigns to the root of a tree (what exprPrec must return) *)
Definition root_level (e : expr) : nat :=
  match e with
  | EBinary op _ _ => match op_level op with Some n => n | None => 0 end
  | EUnary _ op _ => if bytes_eqb op (bs "NOT") then 10 else 2
  | EIn _ _ _ | EIsNull _ _ _ | EIsBool _ _ _ _ | EBetween _ _ _ _ => 9
  | ESelector _ _ | EIndex _ _ _ => 1
  | _ => 0
  end.

(* a tree that is canonical at level n has a root of level <= n: paren(n, e) prints no parenthesis.
   (numeric literals with a folded sign are primaries for the printer: level 0) *)
Lemma can_root_level n e : can n e -> root_level e <= n.
Proof.
  induction 1 as [n m e H IH L|e A|e H IH|c base v Hc Hu|c v Hc Hu|op e Hop H IH Hf|e H IH|op n l r Ho Hn Hl IHl Hr IHr|op l r Ho Hl IHl Hr IHr|neg l Hl IHl|neg l v Hl IHl|neg l s x Hl IHl Hs IHs Hx IHx|neg l x Hl IHl Hx IHx|neg l e1 es Hl IHl H1 IH1 Hes|n1 n2 ns Hp|x n Hx IHx Hpl|x ix Hx IHx Hi IHi Hf|x kw ix Hx IHx Hi IHi Hk|e1 e2 es H1 IH1 H2 IH2 Hes];
    cbn [root_level]; try lia; try (rewrite Ho; lia).
  - destruct A; cbn; lia.
  - destruct Hop as [->|[->| ->]]; cbn; lia.
  - cbn. lia.
Qed.

(* non-vacuity: a tree exercising every level, and the model's own answer on its spelling *)
Example can_example :
  let a := EIdent (zident (bs "a")) in let b := EIdent (zident (bs "b")) in let one := EInt 0 0 10 (bs "1") in
  let e := EBinary (bs "OR") (EBinary (bs "AND") (EUnary 0 (bs "NOT") (EBinary (bs "<") a (EBinary (bs "|") b one)))
                                         (EBinary (bs "=") (EBinary (bs "+") a (EBinary (bs "*") (EUnary 0 (bs "-") b) (EInt 0 0 10 (bs "-1")))) one))
                    (EParen 0 0 (EBinary (bs "OR") a b)) in
  parse_expr (spell e ++ [eof_tok]) = Ok (e, [eof_tok]).
Proof. vm_compute. reflexivity. Qed.
