(* Parse/TypeModel.v -- the whole type grammar of parser.go (parseType / parseSimpleType / parseNamedType / parseArrayType /
   parseStructType / parseStructTypeFields / parseFieldType / parseIdentOrPath, and the entry point ParseType) as total Gallina
   functions over a pre-lexed token list.  Unlike the expression fragment nothing is left out: every token list gets an answer.
   What is modelled is the success path and the position of the first error; the recovery that turns an error into a BadType
   node is the handler of Parse/Recovery.v.
   The one place where the parser rewrites its current token is here: a ">>" that closes a type is turned into ">" one byte
   further (parseArrayType, parseStructTypeFields), so that ARRAY<ARRAY<INT64>> needs no white space.
   Tie: hand transcription + correspondence with ParseType on the real lexer's tokens in every run (bin/check C08). *)
From Verif Require Import Base.Bytes Tree.Tree Parse.ExprModel.
Local Open Scope Z_scope.

Inductive ty :=
| TSimple (pos : Z) (name : bytes)
| TNamed (ids : list ident)
| TArray (apos gt : Z) (item : ty)
| TStruct (spos gt : Z) (fields : list (option ident * ty)).

(* var simpleTypes, in the order of the source; id.IsIdent(name): an identifier token (quoted or not) equal to name up to case *)
Definition simple_types : list String.string :=
  ["BOOL"; "INT64"; "FLOAT32"; "FLOAT64"; "DATE"; "TIMESTAMP"; "NUMERIC"; "STRING"; "BYTES"; "JSON"; "TOKENLIST"]%string.

Fixpoint find_simple (t : ptok) (l : list String.string) : option bytes :=
  match l with
  | [] => None
  | n :: r => if is_ident_ci t n then Some (bs n) else find_simple t r
  end.
Definition simple_name (t : ptok) : option bytes := find_simple t simple_types.

(* lookaheadType *)
Definition type_start (t : ptok) : bool := kis t K_ident || kis t "ARRAY" || kis t "STRUCT".

(* the current token is replaced (p.Token.Kind = ">"; p.Token.Raw = ">"; p.Token.Pos += 1) *)
Definition half_gt (t : ptok) : ptok := {| pk := bs ">"; praw := bs ">"; pstr := pstr t; ppos := ppos t + 1; pend := pend t; pbase := pbase t |}.
Definition set_cur (t : ptok) (ts : toks) : toks := match ts with [] => [] | _ :: r => t :: r end.

(* the end of ARRAY<...> and STRUCT<...>: position of the closing byte, and the token stream after it *)
Definition close_angle (ts : toks) : res (Z * toks) :=
  if kis (cur ts) ">>" then Ok (ppos (cur ts), set_cur (half_gt (cur ts)) ts)
  else do (t, ts1) <- expect ">" ts; Ok (ppos t, ts1).

(* parseIdentOrPath after its first identifier: for Token.Kind == "." { nextToken; append(parseIdent()) } *)
Fixpoint path_more (n : nat) (acc : list ident) (ts : toks) : res (list ident * toks) :=
  match n with
  | O => Fuel
  | S n' => if kis (cur ts) "." then do (i, ts1) <- parse_ident (next ts); path_more n' (acc ++ [i])%list ts1
            else Ok (acc, ts)
  end.

(* parseFieldType: an identifier followed by the start of a type is the field name; otherwise the lexer is restored *)
Definition pfield (pt : toks -> res (ty * toks)) (ts : toks) : res ((option ident * ty) * toks) :=
  if kis (cur ts) K_ident && type_start (cur (next ts)) then
    do (t, ts1) <- pt (next ts); Ok ((Some (mk_ident (cur ts)), t), ts1)
  else do (t, ts1) <- pt ts; Ok ((None, t), ts1).

(* parseCommaSeparatedList(p, p.parseFieldType) after its first element *)
Fixpoint fields_more (pt : toks -> res (ty * toks)) (n : nat) (acc : list (option ident * ty)) (ts : toks)
  : res (list (option ident * ty) * toks) :=
  match n with
  | O => Fuel
  | S n' => if kis (cur ts) "," then do (fl, ts1) <- pfield pt (next ts); fields_more pt n' (acc ++ [fl])%list ts1
            else Ok (acc, ts)
  end.

(* one call of parseType; the recursive calls go through [pt], the two loops run [n] times at most *)
Definition tstep (pt : toks -> res (ty * toks)) (n : nat) (ts : toks) : res (ty * toks) :=
  let t := cur ts in
  if kis t K_ident then
    match simple_name t with
    | Some nm => Ok (TSimple (ppos t) nm, next ts)                      (* parseSimpleType *)
    | None => do (ids, ts1) <- path_more n [mk_ident t] (next ts);      (* parseNamedType *)
              Ok (TNamed ids, ts1)
    end
  else if kis t "ARRAY" then
    do (_, ts1) <- expect "<" (next ts);
    do (it, ts2) <- pt ts1;
    do (gt, ts3) <- close_angle ts2;
    Ok (TArray (ppos t) gt it, ts3)
  else if kis t "STRUCT" then
    let ts1 := next ts in
    if kis (cur ts1) "<>" then Ok (TStruct (ppos t) (ppos (cur ts1) + 1) [], next ts1)
    else if negb (kis (cur ts1) "<") then Err (ppos (cur ts1))
    else
      let ts2 := next ts1 in
      do (fs, ts3) <- (if kis (cur ts2) ">" || kis (cur ts2) ">>" then Ok ([], ts2)
                       else do (f1, ts3) <- pfield pt ts2; fields_more pt n [f1] ts3);
      do (gt, ts4) <- close_angle ts3;
      Ok (TStruct (ppos t) gt fs, ts4)
  else Err (ppos t).

(* parseType; all loops run on the same fuel *)
Fixpoint PT (fuel : nat) (ts : toks) {struct fuel} : res (ty * toks) :=
  match fuel with
  | O => Fuel
  | S f => tstep (PT f) f ts
  end.

(* the entry point ParseType: the whole input must be one type *)
Definition type_fuel (ts : toks) : nat := 2 * length ts + 2.
Definition parse_type (ts : toks) : res (ty * toks) :=
  do (t, ts1) <- PT (type_fuel ts) ts;
  if kis (cur ts1) K_eof then Ok (t, ts1) else Err (ppos (cur ts1)).

(* ---------- the AST as a universal tree (field order of ast/ast.go) ---------- *)
Fixpoint ty_tree (t : ty) : tree :=
  match t with
  | TSimple p n => TNode "SimpleType" [TPos p; TStr n]
  | TNamed ids => TNode "NamedType" [TList (map t_ident ids)]
  | TArray a g it => TNode "ArrayType" [TPos a; TPos g; ty_tree it]
  | TStruct s g fs =>
      TNode "StructType" [TPos s; TPos g;
        TList ((fix go (l : list (option ident * ty)) : list tree :=
                  match l with
                  | [] => []
                  | (oi, x) :: r => TNode "StructField" [match oi with Some i => t_ident i | None => TNil end; ty_tree x] :: go r
                  end) fs)]
  end.

(* ---------- positions (the POS comments of ast/ast.go) ---------- *)
Fixpoint last_end (d : Z) (ids : list ident) : Z := match ids with [] => d | i :: r => last_end (id_end i) r end.
Definition last_ident_end (ids : list ident) : Z := last_end 0 ids.
Definition ty_pos (t : ty) : Z :=
  match t with
  | TSimple p _ => p
  | TNamed ids => match ids with i :: _ => id_pos i | [] => 0 end
  | TArray a _ _ => a
  | TStruct s _ _ => s
  end.
Definition ty_end (t : ty) : Z :=
  match t with
  | TSimple p n => p + Z.of_nat (length n)
  | TNamed ids => last_ident_end ids
  | TArray _ g _ => g + 1
  | TStruct _ g _ => g + 1
  end.
