(* Parse/RecoveryProofs.v -- C10 on the model: the Bad node built by an error handler holds exactly the tokens of the
   recovery-mode scan from the recovery point up to the first stop token, in order, each once; NodePos / NodeEnd are the start
   of the first and the end of the last of them; their ranges are increasing, disjoint and inside [NodePos, NodeEnd);
   Raw is the input slice; the handlers always terminate without a lexer error. *)
From Verif Require Import Base.Bytes Base.Utf8 Bytes.FileModel Bytes.FileProofs Gen.Keywords Lex.Lexer Lex.LexFacts Lex.LexTiling Lex.LexTotal Parse.Recovery.
Local Open Scope nat_scope.

Lemma raise_not_ok' {A} buf p e c (x : A) : raise buf p e c = LOk x -> False.
Proof. unfold raise. destruct (position_of _ _ _); discriminate. Qed.

Definition np_step (l l' : lexer) : Prop := next_token true l = LOk l'.

(* the current tokens of the states visited from l (l included) up to, not including, l' *)
Inductive path : lexer -> list token -> lexer -> Prop :=
| path_nil l : path l [] l
| path_cons l l1 ts l' : np_step l l1 -> path l1 ts l' -> path l (l_tok l :: ts) l'.

Lemma path_snoc l ts l1 l2 : path l ts l1 -> np_step l1 l2 -> path l (ts ++ [l_tok l1]) l2.
Proof. induction 1 as [l|l la ts l' S P IH]; intros S2; cbn [app]; [repeat econstructor; eauto|econstructor; eauto]. Qed.

Definition last_end (ts : list token) (d : nat) : nat := match rev ts with t :: _ => t_end t | [] => d end.

(* why the loop stopped at state l with nesting n *)
Definition stopped (h : handler) (n : nat) (l : lexer) : Prop :=
  keq (t_kind (l_tok l)) K_eof = true \/ decide h n (t_kind (l_tok l)) = Stop \/ decide h n (t_kind (l_tok l)) = SplitStop.

(* the nesting counter after the tokens ts *)
Fixpoint nest_after (h : handler) (n : nat) (ts : list token) : option nat :=
  match ts with
  | [] => Some n
  | t :: r => if keq (t_kind t) K_eof then None
              else match decide h n (t_kind t) with Go n' => nest_after h n' r | _ => None end
  end.

Lemma nest_after_app h : forall a n b, nest_after h n (a ++ b) = match nest_after h n a with Some m => nest_after h m b | None => None end.
Proof.
  induction a as [|t a IH]; intros n b; [reflexivity|]. cbn [app nest_after]. destruct (keq _ K_eof); [reflexivity|].
  destruct (decide h n (t_kind t)); auto.
Qed.

Theorem skip_sound : forall fuel h n l racc endp ts e lf,
  skip fuel h n l racc endp = Some (ts, e, lf) ->
  exists col l0 m,
    ts = rev racc ++ col /\ path l col l0 /\ nest_after h n col = Some m /\ stopped h m l0 /\
    (lf = l0 \/ (decide h m (t_kind (l_tok l0)) = SplitStop /\ lf = split_token l0)) /\
    e = last_end col endp.
Proof.
  induction fuel as [|f IH]; intros h n l racc endp ts e lf H; [discriminate|].
  cbn [skip] in H. destruct (keq (t_kind (l_tok l)) K_eof) eqn:E.
  { injection H as A B C; subst ts e lf. exists [], l, n. rewrite app_nil_r. unfold stopped. repeat split; auto using path_nil. }
  destruct (decide h n (t_kind (l_tok l))) as [|n'|] eqn:D.
  - injection H as A B C; subst ts e lf. exists [], l, n. rewrite app_nil_r. unfold stopped. repeat split; auto using path_nil.
  - destruct (next_token true l) as [l1| |] eqn:N; try discriminate.
    apply IH in H. destruct H as (col & l0 & m & A & P & NA & ST & LF & EE).
    exists (l_tok l :: col), l0, m. split; [rewrite A; cbn [rev]; rewrite <- app_assoc; reflexivity|].
    split; [econstructor; eauto|]. split; [cbn [nest_after]; rewrite E, D; exact NA|]. split; [exact ST|]. split; [exact LF|].
    rewrite EE. unfold last_end. cbn [rev]. destruct (rev col) as [|t r] eqn:RC; reflexivity.
  - injection H as A B C; subst ts e lf. exists [], (l), n. rewrite app_nil_r. unfold stopped. split; [reflexivity|]. split; [apply path_nil|].
    split; [reflexivity|]. split; [auto|]. split; [right; auto|reflexivity].
Qed.

(* ---- positions along a path ---- *)
Definition reached (l : lexer) : Prop := lex_inv l /\ l_pos l = t_end (l_tok l).

Lemma step_reached l l' : reached l -> np_step l l' -> reached l' /\ t_end (l_tok l) <= t_pos (l_tok l') /\ t_pos (l_tok l') <= t_end (l_tok l').
Proof.
  intros [I E] N. pose proof (next_token_step _ _ _ N) as S. pose proof (step_inv _ _ I S) as I'.
  destruct S as [Sb St Sp Se Sl Sk]. split; [split; [exact I'|exact Sl]|]. rewrite <- E. lia.
Qed.

(* consecutive tokens of a path: each starts at or after the end of the previous one *)
Fixpoint ordered (lo : nat) (ts : list token) : Prop :=
  match ts with
  | [] => True
  | t :: r => lo <= t_pos t /\ t_pos t <= t_end t /\ ordered (t_end t) r
  end.

Lemma path_ordered : forall l ts l', path l ts l' -> reached l ->
  reached l' /\ match ts with [] => True | t :: r => t = l_tok l /\ ordered (t_end t) r end /\
  (ts <> [] -> last_end ts 0 <= t_pos (l_tok l')).
Proof.
  induction 1 as [l|l l1 ts l' S P IH]; intros R; [split; [exact R|]; split; [exact I|congruence]|].
  destruct (step_reached _ _ R S) as (R1 & A & B). destruct (IH R1) as (R' & O & LE).
  split; [exact R'|]. split.
  - split; [reflexivity|]. destruct ts as [|t r]; [exact I|]. destruct O as [-> O]. cbn [ordered]. auto.
  - intros _. destruct ts as [|t r].
    + inversion P; subst. unfold last_end. cbn. exact A.
    + specialize (LE ltac:(discriminate)). unfold last_end in *. cbn [rev] in *.
      destruct (rev r) as [|x y] eqn:RR; cbn [app] in *; exact LE.
Qed.

(* ---- the handlers always return ---- *)
Lemma np_total l : lex_inv l -> exists l', np_step l l'.
Proof.
  intros I. unfold np_step. destruct (next_token true l) as [l'|e|] eqn:N; [eauto| |].
  - exfalso. eapply next_token_np_no_error; eauto.
  - exfalso. eapply next_token_no_crash; eauto.
Qed.

Lemma np_progress l l' : np_step l l' -> keq (t_kind (l_tok l')) K_eof = false -> length (l_rest l') < length (l_rest l).
Proof.
  unfold np_step, next_token. intros H E.
  destruct (trivia _ _ _ _ _) as [cs sp s pos|cs s pos|p e] eqn:T.
  - apply trivia_ok in T. destruct T as (new & A & B & C).
    destruct (if l_dot l then _ else _) as [n kind str base dot|p e c] eqn:R.
    + destruct (length s <? n) eqn:LN; [discriminate|]. apply Nat.ltb_ge in LN.
      inversion H; subst l'; clear H. cbn [l_rest l_tok t_kind] in *.
      destruct s as [|c s1].
      * exfalso. destruct (l_dot l); simpl in R; inversion R; subst; discriminate E.
      * assert (0 < n) by (destruct (l_dot l); [eapply consume_field_token_pos|eapply consume_token_pos]; eauto).
        rewrite B, !app_length, skipn_length. lia.
    + unfold raise in H. destruct (position_of _ _ _); discriminate.
  - destruct (l_rest l) as [|c r] eqn:LR; [cbn in T; discriminate|].
    apply trivia_bad in T. destruct T as (_ & -> & _). inversion H; subst l'. cbn [l_rest length]. lia.
  - unfold raise in H. destruct (position_of _ _ _); discriminate.
Qed.

Theorem skip_total : forall fuel h n l racc endp, lex_inv l ->
  (if keq (t_kind (l_tok l)) K_eof then 1 else length (l_rest l) + 2) <= fuel ->
  skip fuel h n l racc endp <> None.
Proof.
  induction fuel as [|f IH]; intros h n l racc endp I L.
  - destruct (keq _ K_eof); lia.
  - cbn [skip]. destruct (keq (t_kind (l_tok l)) K_eof) eqn:E; [discriminate|].
    destruct (decide h n (t_kind (l_tok l))); try discriminate.
    destruct (np_total l I) as [l' N]. unfold np_step in N. rewrite N.
    pose proof (step_inv _ _ I (next_token_step _ _ _ N)) as I'.
    apply IH; [exact I'|]. destruct (keq (t_kind (l_tok l')) K_eof) eqn:E'; [lia|].
    pose proof (np_progress l l' N E'). lia.
Qed.

(* ---- C10 for one handler call ---- *)
Theorem handle_spec h l : reached l ->
  exists bd lf col l0 m,
    handle h l = Some (bd, lf) /\
    (* exactly the tokens of the recovery-mode scan from the current token up to the stop token, in order *)
    b_toks bd = col /\ path l col l0 /\ nest_after h 0 col = Some m /\ stopped h m l0 /\
    (lf = l0 \/ (decide h m (t_kind (l_tok l0)) = SplitStop /\ lf = split_token l0)) /\
    (* NodePos is where the first token starts; NodeEnd where the last one ends (or NodePos when there is none) *)
    b_pos bd = t_pos (l_tok l) /\ b_end bd = last_end col (t_pos (l_tok l)) /\
    match col with [] => True | t :: r => t = l_tok l /\ ordered (t_end t) r end /\
    (* the token the parser continues with lies at or after NodeEnd *)
    (col <> [] -> b_end bd <= t_pos (l_tok l0)).
Proof.
  intros R. unfold handle.
  destruct (skip (length (l_rest l) + 2) h 0 l [] (t_pos (l_tok l))) as [[[ts e] lf]|] eqn:SK.
  - destruct (skip_sound _ _ _ _ _ _ _ _ _ SK) as (col & l0 & m & A & P & NA & ST & LF & EE). cbn [rev app] in A. subst ts.
    destruct (path_ordered _ _ _ P R) as (R' & O & LE).
    exists (mkBad (t_pos (l_tok l)) e col), lf, col, l0, m. cbn [b_toks b_pos b_end]. repeat split; auto.
    intros NE. rewrite EE. specialize (LE NE). unfold last_end in *. destruct (rev col) eqn:RC; [|exact LE].
    exfalso. apply NE. rewrite <- (rev_involutive col), RC. reflexivity.
  - exfalso. revert SK. apply skip_total; [apply R|]. destruct (keq _ K_eof); lia.
Qed.

(* ---- the recovery-mode lexer agrees with the public one wherever the public one succeeds ---- *)
Lemma quoted_np_agree : forall fuel q raw uni isid s i racc c n h,
  quoted fuel false q raw uni isid s i racc false = QDone c n h ->
  quoted fuel true q raw uni isid s i racc false = QDone c n h.
Proof.
  induction fuel as [|f IH]; intros q raw uni isid s i racc c n h H; [exact H|].
  cbn [quoted negb] in *. cbv zeta in *.
  repeat match type of H with
  | (if ?x then _ else _) = _ => destruct x eqn:?
  | match ?x with _ => _ end = _ => destruct x eqn:?
  end; try discriminate H; cbn [andb orb negb] in *; try (apply IH; exact H); try exact H.
  all: try (rewrite andb_false_r; cbn [orb]; exact H).
Qed.

Lemma consume_number_np_agree s n k str b d : consume_number false s = COk n k str b d -> consume_number true s = COk n k str b d.
Proof.
  unfold consume_number. destruct (num_loop _ _ _ _ _) as [i isint].
  destruct (nth_error s i) as [c|]; [destruct (is_ident_part c)|]; intros H; try discriminate; exact H.
Qed.

Lemma consume_quoted_literal_np_agree isb raw s c n h :
  consume_quoted_literal false isb raw s = QDone c n h -> consume_quoted_literal true isb raw s = QDone c n h.
Proof. unfold consume_quoted_literal. destruct s as [|a s']; [auto|]. apply quoted_np_agree. Qed.

Lemma consume_token_np_agree last s n k str b d :
  consume_token false last s = COk n k str b d -> consume_token true last s = COk n k str b d.
Proof.
  unfold consume_token. destruct s as [|c s1]; [auto|].
  intros H.
  repeat match type of H with
  | (if ?x then _ else _) = _ => destruct x eqn:?
  | match ?x with _ => _ end = _ => destruct x eqn:?
  end; try discriminate H; try exact H;
  try (apply consume_number_np_agree; exact H);
  repeat match goal with
  | Q : quoted _ false _ _ _ _ _ _ _ false = QDone _ _ _ |- _ => apply quoted_np_agree in Q; rewrite Q
  | Q : consume_quoted_literal false _ _ _ = QDone _ _ _ |- _ => apply consume_quoted_literal_np_agree in Q; rewrite Q
  end; try exact H.
Qed.

Lemma consume_field_token_np_agree last s n k str b d :
  consume_field_token false last s = COk n k str b d -> consume_field_token true last s = COk n k str b d.
Proof.
  unfold consume_field_token. destruct s as [|c s1]; [apply consume_token_np_agree|].
  destruct (is_ident_part c); [auto|apply consume_token_np_agree].
Qed.

Lemma trivia_np_agree : forall fuel s pos rc cs sp s' pos',
  trivia fuel false s pos rc = TOk cs sp s' pos' -> trivia fuel true s pos rc = TOk cs sp s' pos'.
Proof.
  induction fuel as [|f IH]; intros s pos rc cs sp s' pos' H; [exact H|].
  rewrite trivia_S in *. cbv zeta in *.
  destruct (skip_comment _) as [[m u]|]; [|exact H]. destruct u; [discriminate|]. apply IH, H.
Qed.

(* wherever the public NextToken returns a token, the recovery-mode step returns the same lexer state *)
Theorem public_step_is_np_step l l' : next_token false l = LOk l' -> next_token true l = LOk l'.
Proof.
  unfold next_token. intros H.
  destruct (trivia (S (length (l_rest l))) false (l_rest l) (l_pos l) []) as [cs sp s pos|cs s pos|p e] eqn:T.
  - rewrite (trivia_np_agree _ _ _ _ _ _ _ _ T).
    destruct (if l_dot l then consume_field_token false _ s else consume_token false _ s) as [n k str b d|p e c] eqn:R.
    + assert (R' : (if l_dot l then consume_field_token true (t_kind (l_tok l)) s else consume_token true (t_kind (l_tok l)) s) = COk n k str b d).
      { destruct (l_dot l); [apply consume_field_token_np_agree|apply consume_token_np_agree]; exact R. }
      rewrite R'. exact H.
    + exfalso. eapply raise_not_ok'; eauto.
  - apply trivia_bad in T. destruct T as [X _]. discriminate.
  - exfalso. eapply raise_not_ok'; eauto.
Qed.

(* ---- Raw of every collected token is the input slice [Pos, End) ---- *)
Definition tok_slice (buf : bytes) (t : token) : Prop := slice buf (t_pos t) (t_end t) = Some (t_raw t).

Lemma step_slice l l' : lex_inv l -> np_step l l' -> tok_slice (l_buf l) (l_tok l') /\ l_buf l' = l_buf l.
Proof.
  intros [I1 I2] N. destruct (next_token_step _ _ _ N) as [Sb St Sp Se Sl Sk]. split; [|exact Sb].
  unfold tok_slice.
  assert (B : l_buf l = firstn (l_pos l) (l_buf l) ++ l_rest l) by (rewrite I1; symmetry; apply firstn_skipn).
  rewrite B, St. unfold render.
  replace (firstn (l_pos l) (l_buf l) ++ (render_comments (t_comments (l_tok l')) ++ t_space (l_tok l') ++ t_raw (l_tok l')) ++ l_rest l')
    with ((firstn (l_pos l) (l_buf l) ++ render_comments (t_comments (l_tok l')) ++ t_space (l_tok l')) ++ t_raw (l_tok l') ++ l_rest l')
    by (rewrite <- !app_assoc; reflexivity).
  apply slice_mid; rewrite !app_length, firstn_length; lia.
Qed.

Lemma path_slices : forall l ts l', path l ts l' -> lex_inv l -> tok_slice (l_buf l) (l_tok l) ->
  Forall (tok_slice (l_buf l)) ts /\ tok_slice (l_buf l) (l_tok l') /\ l_buf l' = l_buf l /\ lex_inv l'.
Proof.
  induction 1 as [l|l l1 ts l' S P IH]; intros I T; [auto|].
  destruct (step_slice _ _ I S) as [T1 B1]. pose proof (step_inv _ _ I (next_token_step _ _ _ S)) as I1.
  rewrite <- B1 in T1. destruct (IH I1 T1) as (F & TL & BL & IL). rewrite B1 in *. auto.
Qed.
