(* Parse/TypeSpell.v -- the spelling of a type tree and the well-formedness test of type trees (definitions only; used by the extracted
   driver, so this file depends on nothing that is regenerated from ast/sql.go). *)
From Verif Require Import Base.Bytes Tree.Tree Parse.ExprModel Parse.ExprFacts Parse.Spell Parse.Respell Parse.TypeModel Parse.TypeProofs Parse.TypeRespell.
From Coq Require Import Lia.
Local Open Scope Z_scope.

Notation erase0 := (erase_ty (fun b => b)).

(* ---------- the spelling of a type tree (positions ignored) ---------- *)
Definition zfield_name (oi : option ident) : toks := match oi with Some i => [t_ident (id_name i)] | None => [] end.

Fixpoint zspell (t : ty) : toks :=
  match t with
  | TSimple _ n => [t_ident n]
  | TNamed ids => match ids with i :: r => t_ident (id_name i) :: path_tail r | [] => [] end
  | TArray _ _ it => tk "ARRAY" :: tk "<" :: zspell it ++ [tk ">"]
  | TStruct _ _ fs =>
      match fs with
      | [] => [tk "STRUCT"; tk "<>"]
      | (oi, x) :: r =>
          tk "STRUCT" :: tk "<" :: zfield_name oi ++ zspell x ++
          (fix go (l : list (option ident * ty)) : toks :=
             match l with [] => [] | (oj, y) :: l' => tk "," :: zfield_name oj ++ zspell y ++ go l' end) r ++ [tk ">"]
      end
  end.

Definition zfield (f : option ident * ty) : toks := zfield_name (fst f) ++ zspell (snd f).
Fixpoint zmore (l : list (option ident * ty)) : toks := match l with [] => [] | f :: l' => tk "," :: zfield f ++ zmore l' end.

Lemma go_zmore fs :
  (fix go (l : list (option ident * ty)) : toks :=
     match l with [] => [] | (oj, y) :: l' => tk "," :: zfield_name oj ++ zspell y ++ go l' end) fs = zmore fs.
Proof.
  induction fs as [|[oj y] r IH]; [reflexivity|]. cbn [zmore]. unfold zfield. cbn [fst snd]. rewrite IH, <- app_assoc. reflexivity.
Qed.

Lemma zspell_struct a b f fs : zspell (TStruct a b (f :: fs)) = tk "STRUCT" :: tk "<" :: zfield f ++ zmore fs ++ [tk ">"].
Proof.
  destruct f as [oi x]. cbn [zspell]. rewrite go_zmore. unfold zfield. cbn [fst snd]. rewrite <- app_assoc. reflexivity.
Qed.

(* ---------- well-formed type trees: what the parser can return ---------- *)
Definition canonical_simple (n : bytes) : bool := match simple_name (t_ident n) with Some m => bytes_eqb m n | None => false end.

Fixpoint wf_tyb (t : ty) : bool :=
  match t with
  | TSimple _ n => canonical_simple n
  | TNamed ids => match ids with i :: _ => match simple_name (t_ident (id_name i)) with None => true | Some _ => false end | [] => false end
  | TArray _ _ it => wf_tyb it
  | TStruct _ _ fs => (fix go (l : list (option ident * ty)) : bool := match l with [] => true | (_, x) :: r => wf_tyb x && go r end) fs
  end.

Lemma wf_struct a b fs : wf_tyb (TStruct a b fs) = forallb (fun f => wf_tyb (snd f)) fs.
Proof. cbn [wf_tyb]. induction fs as [|[oi x] r IH]; [reflexivity|]. cbn [forallb snd]. rewrite <- IH. reflexivity. Qed.

