(* Parse/TypeRecoverProofs.v -- theorems about the total model of ParseType (Parse/TypeRecover.v): it terminates on every token list
   that ends with <eof>, it never fails, it coincides with the success-path model where that one succeeds, and it obeys the error
   contract: errors only accumulate, every Bad node has its error, no error means a clean parse. *)
From Verif Require Import Base.Bytes Tree.Tree Parse.ExprModel Parse.TypeModel Parse.TypeProofs Parse.TypeRecover.
From Coq Require Import Lia.
Local Open Scope nat_scope.

(* ---------- small facts ---------- *)
Lemma last_eof_nonempty ts : last_eof ts -> ts <> [].
Proof. intros (pre & e & -> & _). destruct pre; discriminate. Qed.

Lemma last_eof_tl t r : last_eof (t :: r) -> kis t K_eof = false -> last_eof r.
Proof.
  intros (pre & e & E & K) H. destruct pre as [|x pre]; cbn [app] in E; inversion E; subst; [congruence|]. exists pre, e. auto.
Qed.

Lemma last_eof_cons t r : last_eof r -> last_eof (t :: r).
Proof. intros (pre & e & -> & K). exists (t :: pre), e. auto. Qed.

Lemma last_eof_next ts : last_eof ts -> last_eof (next ts).
Proof.
  intros L. destruct ts as [|t [|u r]]; [exact L|exact L|]. change (next (t :: u :: r)) with (u :: r).
  destruct L as (pre & e & E & K). destruct pre as [|x pre]; cbn [app] in E; inversion E; subst. exists pre, e. auto.
Qed.

Lemma last_eof_set_cur t ts : last_eof ts -> kis (cur ts) K_eof = false -> last_eof (set_cur t ts).
Proof.
  intros L H. destruct ts as [|x r]; [exact L|]. cbn [cur] in H. cbn [set_cur]. apply last_eof_cons. eapply last_eof_tl; eauto.
Qed.

(* ---------- the skip loop returns a tail of its input (possibly with its first token split) ---------- *)
Lemma tskip_rest : forall ts n acc endp sk e' rest, tskip n ts acc endp = (sk, e', rest) -> last_eof ts ->
  length rest <= length ts /\ last_eof rest.
Proof.
  induction ts as [|t r IH]; intros n acc endp sk e' rest H L; cbn [tskip] in H.
  - inversion H; subst. auto.
  - destruct (kis t K_eof || kis t ";" || kis t ")") eqn:S1; [inversion H; subst; auto|].
    assert (NE : kis t K_eof = false) by (apply orb_false_iff in S1 as [S1 _]; apply orb_false_iff in S1 as [S1 _]; exact S1).
    pose proof (last_eof_tl _ _ L NE) as Lr.
    assert (REC : forall n' acc' endp', tskip n' r acc' endp' = (sk, e', rest) -> length rest <= length (t :: r) /\ last_eof rest).
    { intros n' acc' endp' H'. destruct (IH _ _ _ _ _ _ H' Lr) as [A B]. cbn [length]. split; [lia|exact B]. }
    destruct (kis t "<"); [eapply REC; eauto|].
    destruct (kis t ">"); [destruct n; [inversion H; subst; auto|eapply REC; eauto]|].
    destruct (kis t ">>").
    { destruct n as [|[|n]]; [inversion H; subst; auto| |eapply REC; eauto].
      inversion H; subst. cbn [length]. split; [lia|apply last_eof_cons, Lr]. }
    destruct (kis t ","); [destruct n; [inversion H; subst; auto|eapply REC; eauto]|].
    eapply REC; eauto.
Qed.

(* ---------- invariants of a recursive call ---------- *)
Definition shrinksR (pt : toks -> list Z -> rres (rty * toks)) : Prop :=
  forall ts e t r e', pt ts e = ROk (t, r) e' -> last_eof ts -> length r <= length ts /\ last_eof r.
Definition neverErr (pt : toks -> list Z -> rres (rty * toks)) : Prop := forall ts e p e', pt ts e <> RErr p e'.
Definition total_uptoR (pt : toks -> list Z -> rres (rty * toks)) (m : nat) : Prop :=
  forall ts e, last_eof ts -> length ts <= m -> pt ts e <> RFuel.

Lemma lift_ok {A} (r : res A) e a e' : lift r e = ROk a e' -> r = Ok a /\ e' = e.
Proof. destruct r; cbn; intros H; inversion H; auto. Qed.

Lemma close_angle_shrinks ts g r : close_angle ts = Ok (g, r) -> last_eof ts -> length r <= length ts /\ last_eof r.
Proof.
  intros H L. split; [eapply close_angle_le; eauto|]. unfold close_angle in H. destruct (kis (cur ts) ">>") eqn:G.
  - inversion H; subst. apply last_eof_set_cur; [exact L|]. exact (kd _ _ K_eof G eq_refl).
  - destruct (expect ">" ts) as [[t r0]| | |] eqn:E; cbn [bind] in H; inversion H; subst.
    apply expect_ok in E as (_ & _ & ->). apply last_eof_next, L.
Qed.

Lemma path_more_last : forall n acc ts ids r, path_more n acc ts = Ok (ids, r) -> last_eof ts -> last_eof r.
Proof.
  induction n as [|n IH]; intros acc ts ids r H L; [discriminate|]. cbn [path_more] in H.
  destruct (kis (cur ts) "."); [|inversion H; subst; exact L].
  destruct (parse_ident (next ts)) as [[i ts1]| | |] eqn:E; cbn [bind] in H; try discriminate.
  apply parse_ident_ok in E as (_ & _ & ->). eapply IH; eauto. apply last_eof_next, last_eof_next, L.
Qed.

Lemma pfieldR_shrinks pt ts e x r e' : shrinksR pt -> pfieldR pt ts e = ROk (x, r) e' -> last_eof ts -> length r <= length ts /\ last_eof r.
Proof.
  intros Sh H L. unfold pfieldR in H. pose proof (next_le ts). destruct (kis (cur ts) K_ident && type_start (cur (next ts))).
  - destruct (pt (next ts) e) as [[t r0] e0| |] eqn:E; cbn [rbind] in H; inversion H; subst.
    destruct (Sh _ _ _ _ _ E (last_eof_next _ L)) as [A B]. split; [lia|exact B].
  - destruct (pt ts e) as [[t r0] e0| |] eqn:E; cbn [rbind] in H; inversion H; subst. eapply Sh; eauto.
Qed.

Lemma fields_moreR_shrinks pt : shrinksR pt -> forall n acc ts e fs r e', fields_moreR pt n acc ts e = ROk (fs, r) e' -> last_eof ts ->
  length r <= length ts /\ last_eof r.
Proof.
  intros Sh. induction n as [|n IH]; intros acc ts e fs r e' H L; [discriminate|]. cbn [fields_moreR] in H.
  destruct (kis (cur ts) ","); [|inversion H; subst; auto].
  destruct (pfieldR pt (next ts) e) as [[fl ts1] e1| |] eqn:E; cbn [rbind] in H; try discriminate.
  destruct (pfieldR_shrinks pt _ _ _ _ _ Sh E (last_eof_next _ L)) as [A B].
  destruct (IH _ _ _ _ _ _ H B) as [C D]. pose proof (next_le ts). split; [lia|exact D].
Qed.

Lemma tstepR_shrinks pt n : shrinksR pt -> shrinksR (tstepR pt n).
Proof.
  intros Sh ts e t r e' H L. unfold tstepR in H. pose proof (next_le ts). pose proof (next_le (next ts)). pose proof (next_le (next (next ts))).
  pose proof (last_eof_next _ L) as L1. pose proof (last_eof_next _ L1) as L2. pose proof (last_eof_next _ L2) as L3.
  destruct (kis (cur ts) K_ident).
  { destruct (simple_name (cur ts)); [inversion H; subst; auto|].
    destruct (path_more n [mk_ident (cur ts)] (next ts)) as [[ids r0]| | |] eqn:E; cbn [lift rbind] in H; inversion H; subst.
    pose proof (path_more_le _ _ _ _ _ E). split; [lia|eapply path_more_last; eauto]. }
  destruct (kis (cur ts) "ARRAY").
  { destruct (expect "<" (next ts)) as [[x ts1]| | |] eqn:E1; cbn [lift rbind] in H; try discriminate.
    apply expect_ok in E1 as (_ & _ & ->).
    destruct (pt (next (next ts)) e) as [[it ts2] e2| |] eqn:E2; cbn [rbind] in H; try discriminate.
    destruct (close_angle ts2) as [[g ts3]| | |] eqn:E3; cbn [lift rbind] in H; inversion H; subst.
    destruct (Sh _ _ _ _ _ E2 L2) as [A B]. destruct (close_angle_shrinks _ _ _ E3 B) as [C D]. split; [lia|exact D]. }
  destruct (kis (cur ts) "STRUCT"); [|discriminate].
  destruct (kis (cur (next ts)) "<>"); [inversion H; subst; split; [lia|exact L2]|].
  destruct (negb (kis (cur (next ts)) "<")); [discriminate|].
  destruct (kis (cur (next (next ts))) ">" || kis (cur (next (next ts))) ">>").
  - cbn [rbind] in H. destruct (close_angle (next (next ts))) as [[g ts4]| | |] eqn:E3; cbn [lift rbind] in H; inversion H; subst.
    destruct (close_angle_shrinks _ _ _ E3 L2) as [C D]. split; [lia|exact D].
  - destruct (pfieldR pt (next (next ts)) e) as [[f1 ts3] e1| |] eqn:E1; cbn [rbind] in H; try discriminate.
    destruct (fields_moreR pt n [f1] ts3 e1) as [[fs ts4] e2| |] eqn:E2; cbn [rbind] in H; try discriminate.
    destruct (close_angle ts4) as [[g ts5]| | |] eqn:E3; cbn [lift rbind] in H; inversion H; subst.
    destruct (pfieldR_shrinks pt _ _ _ _ _ Sh E1 L2) as [A B].
    destruct (fields_moreR_shrinks pt Sh _ _ _ _ _ _ _ E2 B) as [C D].
    destruct (close_angle_shrinks _ _ _ E3 D) as [E F]. split; [lia|exact F].
Qed.

Lemma recover_shrinks ts p e t r e' : recover ts p e = ROk (t, r) e' -> last_eof ts -> length r <= length ts /\ last_eof r.
Proof.
  unfold recover. destruct (tskip 0 ts [] (ppos (cur ts))) as [[sk endp] rest] eqn:T. intros H L. inversion H; subst.
  eapply tskip_rest; eauto.
Qed.

Lemma PTR_shrinks : forall f, shrinksR (PTR f).
Proof.
  induction f as [|f IH]; intros ts e t r e' H L; [discriminate|]. cbn [PTR] in H.
  destruct (tstepR (PTR f) f ts e) as [[t0 r0] e0|p e0|] eqn:E; try discriminate.
  - inversion H; subst. eapply (tstepR_shrinks (PTR f) f IH); eauto.
  - eapply recover_shrinks; eauto.
Qed.

Lemma PTR_neverErr : forall f, neverErr (PTR f).
Proof.
  intros f ts e p e' H. destruct f as [|f]; [discriminate|]. cbn [PTR] in H.
  destruct (tstepR (PTR f) f ts e) as [[t0 r0] e0|p0 e0|]; try discriminate.
  unfold recover in H. destruct (tskip 0 ts [] (ppos (cur ts))) as [[sk endp] rest]. discriminate.
Qed.

(* ---------- termination ---------- *)
(* consuming a token that is not <eof> from a list that ends with <eof> makes the list shorter *)
Lemma consume_len ts k : last_eof ts -> kis (cur ts) k = true -> bytes_eqb (bs k) (bs K_eof) = false -> S (length (next ts)) = length ts.
Proof.
  intros L H D. destruct (consume ts k L H D) as [E _]. rewrite E at 2. reflexivity.
Qed.

Lemma pfieldR_total pt m ts e : total_uptoR pt m -> last_eof ts -> length ts <= m -> pfieldR pt ts e <> RFuel.
Proof.
  intros T L Lm. unfold pfieldR. pose proof (next_le ts). destruct (kis (cur ts) K_ident && type_start (cur (next ts))).
  - destruct (pt (next ts) e) as [[t r] e0| |] eqn:E; cbn [rbind]; try discriminate.
    exfalso. apply (T (next ts) e); [apply last_eof_next, L|lia|exact E].
  - destruct (pt ts e) as [[t r] e0| |] eqn:E; cbn [rbind]; try discriminate. exfalso. apply (T ts e); auto.
Qed.

Lemma fields_moreR_total pt m : shrinksR pt -> total_uptoR pt m -> forall n acc ts e, last_eof ts -> length ts <= m -> length ts < n ->
  fields_moreR pt n acc ts e <> RFuel.
Proof.
  intros Sh T. induction n as [|n IH]; intros acc ts e L Lm Ln; [lia|]. cbn [fields_moreR].
  destruct (kis (cur ts) ",") eqn:C; [|discriminate].
  pose proof (consume_len ts "," L C eq_refl) as CL. pose proof (last_eof_next _ L) as L1.
  destruct (pfieldR pt (next ts) e) as [[fl ts1] e1| |] eqn:E; cbn [rbind]; try discriminate.
  - destruct (pfieldR_shrinks pt _ _ _ _ _ Sh E L1) as [A B]. apply IH; [exact B|lia|lia].
  - exfalso. apply (pfieldR_total pt m (next ts) e T L1); [lia|exact E].
Qed.

Lemma lift_fuel {A} (r : res A) e : lift r e = RFuel -> r = Fuel.
Proof. destruct r; cbn; intros H; try discriminate; reflexivity. Qed.

Lemma tstepR_total pt m n ts e : shrinksR pt -> total_uptoR pt m -> last_eof ts -> length ts <= S m -> length ts <= n ->
  tstepR pt n ts e <> RFuel.
Proof.
  intros Sh T L Lm Ln. unfold tstepR. pose proof (last_eof_next _ L) as L1. pose proof (last_eof_next _ L1) as L2.
  destruct (kis (cur ts) K_ident) eqn:KI.
  { destruct (simple_name (cur ts)); [discriminate|]. pose proof (consume_len ts K_ident L KI eq_refl) as CL.
    destruct (path_more n [mk_ident (cur ts)] (next ts)) as [[ids r]| | |] eqn:E; cbn [lift rbind]; try discriminate.
    exfalso. revert E. apply path_more_total. lia. }
  destruct (kis (cur ts) "ARRAY") eqn:KA.
  { pose proof (consume_len ts "ARRAY" L KA eq_refl) as CL.
    destruct (expect "<" (next ts)) as [[x ts1]| | |] eqn:E1; cbn [lift rbind]; try discriminate; try nofuel.
    apply expect_ok in E1 as (KL & _ & ->). pose proof (consume_len (next ts) "<" L1 KL eq_refl) as CL1.
    destruct (pt (next (next ts)) e) as [[it ts2] e2| |] eqn:E2; cbn [rbind]; try discriminate.
    - destruct (close_angle ts2) as [[g ts3]| | |] eqn:E3; cbn [lift rbind]; try discriminate; nofuel.
    - exfalso. apply (T (next (next ts)) e); [exact L2|lia|exact E2]. }
  destruct (kis (cur ts) "STRUCT") eqn:KS; [|discriminate]. pose proof (consume_len ts "STRUCT" L KS eq_refl) as CL.
  destruct (kis (cur (next ts)) "<>"); [discriminate|].
  destruct (kis (cur (next ts)) "<") eqn:KL; cbn [negb]; [|discriminate].
  pose proof (consume_len (next ts) "<" L1 KL eq_refl) as CL1.
  destruct (kis (cur (next (next ts))) ">" || kis (cur (next (next ts))) ">>").
  - cbn [rbind]. destruct (close_angle (next (next ts))) as [[g ts4]| | |] eqn:E3; cbn [lift rbind]; try discriminate; nofuel.
  - destruct (pfieldR pt (next (next ts)) e) as [[f1 ts3] e1| |] eqn:E1; cbn [rbind]; try discriminate.
    + destruct (pfieldR_shrinks pt _ _ _ _ _ Sh E1 L2) as [A B].
      destruct (fields_moreR pt n [f1] ts3 e1) as [[fs ts4] e2| |] eqn:E2; cbn [rbind]; try discriminate.
      * destruct (close_angle ts4) as [[g ts5]| | |] eqn:E3; cbn [lift rbind]; try discriminate; nofuel.
      * exfalso. revert E2. apply (fields_moreR_total pt m Sh T); [exact B|lia|lia].
    + exfalso. apply (pfieldR_total pt m (next (next ts)) e T L2); [lia|exact E1].
Qed.

Theorem PTR_total : forall f ts e, last_eof ts -> length ts <= f -> PTR (S f) ts e <> RFuel.
Proof.
  induction f as [|f IH]; intros ts e L Ln.
  - pose proof (last_eof_nonempty _ L). destruct ts; [congruence|cbn in Ln; lia].
  - change (PTR (S (S f)) ts e) with (match tstepR (PTR (S f)) (S f) ts e with ROk r e0 => ROk r e0 | RErr p e0 => recover ts p e0 | RFuel => RFuel end).
    assert (NF : tstepR (PTR (S f)) (S f) ts e <> RFuel).
    { apply (tstepR_total (PTR (S f)) f (S f) ts e); [apply PTR_shrinks| |exact L|lia|lia].
      intros ts0 e0 L0 Ln0. apply IH; auto. }
    destruct (tstepR (PTR (S f)) (S f) ts e) as [[t0 r0] e0|p e0|]; [discriminate| |congruence].
    unfold recover. destruct (tskip 0 ts [] (ppos (cur ts))) as [[sk endp] rest]. discriminate.
Qed.

(* the model of ParseType is a total function on lexer output: a tree and an error list for EVERY token list ending with <eof> *)
Theorem parse_typeR_total : forall ts, last_eof ts -> exists t errs, parse_typeR ts = Some (t, errs).
Proof.
  intros ts L. unfold parse_typeR. pose proof (PTR_total (2 * length ts + 1) ts [] L ltac:(lia)) as NF.
  replace (type_fuel ts) with (S (2 * length ts + 1)) by (unfold type_fuel; lia).
  destruct (PTR (S (2 * length ts + 1)) ts []) as [[t r] e|p e|] eqn:E; [eauto| |congruence].
  exfalso. exact (PTR_neverErr _ _ _ _ _ E).
Qed.

(* ---------- errors only accumulate ---------- *)
(* all errors known after a step: the recorded ones plus the one being raised *)
Definition all_errs {A} (rr : rres A) : option (list Z) :=
  match rr with ROk _ e => Some e | RErr p e => Some (e ++ [p])%list | RFuel => None end.
Definition ext {A} (e : list Z) (rr : rres A) : Prop :=
  match rr with ROk _ e' | RErr _ e' => exists suf, e' = (e ++ suf)%list | RFuel => True end.
Definition first {A} (p : Z) (e : list Z) (rr : rres A) : Prop := rr = RFuel \/ exists suf, all_errs rr = Some (e ++ p :: suf)%list.

Lemma ext_lift {A} (r : res A) e : ext e (lift r e).
Proof. destruct r; cbn [lift ext]; auto; exists []; rewrite app_nil_r; reflexivity. Qed.

Lemma ext_ok {A} (a : A) e : ext e (ROk a e).
Proof. exists []. rewrite app_nil_r. reflexivity. Qed.

Lemma ext_err {A} p e : ext e (@RErr A p e).
Proof. exists []. rewrite app_nil_r. reflexivity. Qed.

Lemma ext_bind {A B} e (rr : rres A) (k : A -> list Z -> rres B) : ext e rr -> (forall a e', ext e' (k a e')) -> ext e (rbind rr k).
Proof.
  intros H K. destruct rr as [a e'|p e'|]; cbn [ext rbind] in *; auto.
  destruct H as [suf ->]. specialize (K a (e ++ suf)%list). destruct (k a (e ++ suf)%list) as [b e2|q e2|]; cbn [ext] in *; auto;
    destruct K as [s2 ->]; exists (suf ++ s2)%list; rewrite app_assoc; reflexivity.
Qed.

Lemma first_bind {A B} p e (rr : rres A) (k : A -> list Z -> rres B) : first p e rr -> (forall a e', ext e' (k a e')) -> first p e (rbind rr k).
Proof.
  intros [->|[suf H]] K; [left; reflexivity|]. destruct rr as [a e'|q e'|]; cbn [all_errs rbind] in *; try discriminate.
  - inversion H; subst. specialize (K a (e ++ p :: suf)%list).
    destruct (k a (e ++ p :: suf)%list) as [b e2|q e2|]; cbn [ext] in K; [| |left; reflexivity]; destruct K as [s2 ->]; right; cbn [all_errs].
    + exists (suf ++ s2)%list. rewrite <- app_assoc. reflexivity.
    + exists (suf ++ s2 ++ [q])%list. rewrite <- !app_assoc. reflexivity.
  - right. exists suf. exact H.
Qed.

Definition grows (pt : toks -> list Z -> rres (rty * toks)) : Prop := forall ts e, ext e (pt ts e).

Lemma pfieldR_grows pt ts e : grows pt -> ext e (pfieldR pt ts e).
Proof.
  intros G. unfold pfieldR. destruct (kis (cur ts) K_ident && type_start (cur (next ts)));
    (apply ext_bind; [apply G|intros [t r] e'; apply ext_ok]).
Qed.

Lemma fields_moreR_grows pt : grows pt -> forall n acc ts e, ext e (fields_moreR pt n acc ts e).
Proof.
  intros G. induction n as [|n IH]; intros acc ts e; [exact I|]. cbn [fields_moreR].
  destruct (kis (cur ts) ","); [|apply ext_ok]. apply ext_bind; [apply pfieldR_grows, G|intros [fl r] e'; apply IH].
Qed.

Lemma tstepR_grows pt n : grows pt -> grows (tstepR pt n).
Proof.
  intros G ts e. unfold tstepR.
  destruct (kis (cur ts) K_ident).
  { destruct (simple_name (cur ts)); [apply ext_ok|]. apply ext_bind; [apply ext_lift|intros [ids r] e'; apply ext_ok]. }
  destruct (kis (cur ts) "ARRAY").
  { apply ext_bind; [apply ext_lift|]. intros [x ts1] e1. apply ext_bind; [apply G|]. intros [it ts2] e2.
    apply ext_bind; [apply ext_lift|]. intros [g ts3] e3. apply ext_ok. }
  destruct (kis (cur ts) "STRUCT"); [|apply ext_err].
  destruct (kis (cur (next ts)) "<>"); [apply ext_ok|].
  destruct (negb (kis (cur (next ts)) "<")); [apply ext_err|].
  apply ext_bind.
  - destruct (kis (cur (next (next ts))) ">" || kis (cur (next (next ts))) ">>"); [apply ext_ok|].
    apply ext_bind; [apply pfieldR_grows, G|intros [f1 ts3] e'; apply fields_moreR_grows, G].
  - intros [fs ts3] e'. apply ext_bind; [apply ext_lift|]. intros [g ts4] e4. apply ext_ok.
Qed.

Lemma recover_all ts p e : exists x, recover ts p e = ROk x (e ++ [p])%list.
Proof. unfold recover. destruct (tskip 0 ts [] (ppos (cur ts))) as [[sk endp] rest]. eexists. reflexivity. Qed.

Lemma PTR_grows : forall f, grows (PTR f).
Proof.
  induction f as [|f IH]; intros ts e; [exact I|]. cbn [PTR].
  pose proof (tstepR_grows (PTR f) f IH ts e) as H.
  destruct (tstepR (PTR f) f ts e) as [r e'|p e'|]; cbn [ext] in *; auto.
  destruct H as [suf ->]. destruct (recover_all ts p (e ++ suf)%list) as [x ->]. cbn [ext]. exists (suf ++ [p])%list. rewrite app_assoc. reflexivity.
Qed.

(* ---------- the total model runs in lockstep with the success-path model up to the first error ---------- *)
Definition rel {A B} (emb : A -> B) (r : res (A * toks)) (rr : rres (B * toks)) (e : list Z) : Prop :=
  match r with
  | Ok (a, K) => rr = ROk (emb a, K) e
  | Err p => first p e rr
  | _ => True
  end.

Lemma rel_lift {A} (r : res (A * toks)) e : rel (fun a => a) r (lift r e) e.
Proof. destruct r as [[a K]|p| |]; cbn [rel lift]; auto. right. exists []. reflexivity. Qed.

Definition embed_field (f : option ident * ty) : option ident * rty := (fst f, embed (snd f)).

Lemma embed_struct s g fs : embed (TStruct s g fs) = RStruct s g (map embed_field fs).
Proof. cbn [embed]. f_equal. induction fs as [|[oi x] r IH]; [reflexivity|]. cbn [map]. rewrite <- IH. reflexivity. Qed.

Definition simulates (pt : toks -> res (ty * toks)) (ptR : toks -> list Z -> rres (rty * toks)) : Prop :=
  forall ts e, rel embed (pt ts) (ptR ts e) e.

Lemma pfield_sim pt ptR ts e : simulates pt ptR -> grows ptR -> rel embed_field (pfield pt ts) (pfieldR ptR ts e) e.
Proof.
  intros S G. unfold pfield, pfieldR. destruct (kis (cur ts) K_ident && type_start (cur (next ts))).
  - specialize (S (next ts) e). destruct (pt (next ts)) as [[t r]|p| |]; cbn [rel bind] in *; [|..|exact I|exact I].
    + rewrite S. reflexivity.
    + apply first_bind; [exact S|intros [t r] e'; apply ext_ok].
  - specialize (S ts e). destruct (pt ts) as [[t r]|p| |]; cbn [rel bind] in *; [|..|exact I|exact I].
    + rewrite S. reflexivity.
    + apply first_bind; [exact S|intros [t r] e'; apply ext_ok].
Qed.

Lemma fields_more_sim pt ptR : simulates pt ptR -> grows ptR -> forall n acc ts e,
  rel (map embed_field) (fields_more pt n acc ts) (fields_moreR ptR n (map embed_field acc) ts e) e.
Proof.
  intros S G. induction n as [|n IH]; intros acc ts e; [exact I|]. cbn [fields_more fields_moreR].
  destruct (kis (cur ts) ","); [|reflexivity].
  pose proof (pfield_sim pt ptR (next ts) e S G) as PS.
  destruct (pfield pt (next ts)) as [[fl ts1]|p| |]; cbn [rel bind] in *; [|..|exact I|exact I].
  - rewrite PS. cbn [rbind]. specialize (IH (acc ++ [fl])%list ts1 e). rewrite map_app in IH. exact IH.
  - apply first_bind; [exact PS|intros [fl r] e'; apply fields_moreR_grows, G].
Qed.

Lemma tstep_sim pt ptR n : simulates pt ptR -> grows ptR -> simulates (tstep pt n) (tstepR ptR n).
Proof.
  intros S G ts e. unfold tstep, tstepR.
  destruct (kis (cur ts) K_ident).
  { destruct (simple_name (cur ts)); [reflexivity|].
    pose proof (rel_lift (path_more n [mk_ident (cur ts)] (next ts)) e) as RL.
    destruct (path_more n [mk_ident (cur ts)] (next ts)) as [[ids r]|p| |]; cbn [rel bind] in *; [|..|exact I|exact I].
    - rewrite RL. reflexivity.
    - apply first_bind; [exact RL|intros [ids r] e'; apply ext_ok]. }
  destruct (kis (cur ts) "ARRAY").
  { pose proof (rel_lift (expect "<" (next ts)) e) as RL.
    destruct (expect "<" (next ts)) as [[x ts1]|p| |]; cbn [rel bind] in *; [|..|exact I|exact I].
    2:{ apply first_bind; [exact RL|]. intros [x ts1] e1. apply ext_bind; [apply G|]. intros [it ts2] e2.
        apply ext_bind; [apply ext_lift|]. intros [g ts3] e3. apply ext_ok. }
    rewrite RL. cbn [rbind]. specialize (S ts1 e).
    destruct (pt ts1) as [[it ts2]|p| |]; cbn [rel bind] in *; [|..|exact I|exact I].
    2:{ apply first_bind; [exact S|]. intros [it ts2] e2. apply ext_bind; [apply ext_lift|]. intros [g ts3] e3. apply ext_ok. }
    rewrite S. cbn [rbind]. pose proof (rel_lift (close_angle ts2) e) as RC.
    destruct (close_angle ts2) as [[g ts3]|p| |]; cbn [rel bind] in *; [|..|exact I|exact I].
    - rewrite RC. reflexivity.
    - apply first_bind; [exact RC|intros [g ts3] e3; apply ext_ok]. }
  destruct (kis (cur ts) "STRUCT"); [|cbn [rel]; right; exists []; reflexivity].
  destruct (kis (cur (next ts)) "<>"); [reflexivity|].
  destruct (negb (kis (cur (next ts)) "<")); [cbn [rel]; right; exists []; reflexivity|].
  set (ts2 := next (next ts)).
  assert (TAIL : forall (fs : list (option ident * rty)) ts3 e', ext e'
            (rbind (lift (close_angle ts3) e') (fun '(gt, ts4) e4 => ROk (RStruct (ppos (cur ts)) gt fs, ts4) e4))).
  { intros fs ts3 e'. apply ext_bind; [apply ext_lift|]. intros [g ts4] e4. apply ext_ok. }
  destruct (kis (cur ts2) ">" || kis (cur ts2) ">>").
  - cbn [bind rbind]. pose proof (rel_lift (close_angle ts2) e) as RC.
    destruct (close_angle ts2) as [[g ts4]|p| |]; cbn [rel bind] in *; [|..|exact I|exact I].
    + rewrite RC. cbn [rbind]. rewrite embed_struct. reflexivity.
    + apply first_bind; [exact RC|intros [g ts4] e4; apply ext_ok].
  - pose proof (pfield_sim pt ptR ts2 e S G) as PS.
    destruct (pfield pt ts2) as [[f1 ts3]|p| |]; cbn [rel bind] in *; [|..|exact I|exact I].
    2:{ apply first_bind; [apply first_bind; [exact PS|intros [f1 ts3] e'; apply fields_moreR_grows, G]|]. intros [fs ts3] e'. apply TAIL. }
    rewrite PS. cbn [rbind].
    pose proof (fields_more_sim pt ptR S G n [f1] ts3 e) as FS. cbn [map] in FS.
    destruct (fields_more pt n [f1] ts3) as [[fs ts4]|p| |]; cbn [rel bind] in *; [|..|exact I|exact I].
    2:{ apply first_bind; [exact FS|]. intros [fs ts4] e'. apply TAIL. }
    rewrite FS. cbn [rbind]. pose proof (rel_lift (close_angle ts4) e) as RC.
    destruct (close_angle ts4) as [[g ts5]|p| |]; cbn [rel bind] in *; [|..|exact I|exact I].
    + rewrite RC. cbn [rbind]. rewrite embed_struct. reflexivity.
    + apply first_bind; [exact RC|intros [g ts5] e4; apply ext_ok].
Qed.

Theorem PTR_simulates_PT : forall f, simulates (PT f) (PTR f).
Proof.
  induction f as [|f IH]; intros ts e; [exact I|]. cbn [PT PTR].
  pose proof (tstep_sim (PT f) (PTR f) f IH (PTR_grows f) ts e) as S.
  destruct (tstep (PT f) f ts) as [[t K]|p| |]; cbn [rel] in *; auto.
  - rewrite S. reflexivity.
  - destruct S as [F|[suf H]]; [rewrite F; left; reflexivity|].
    destruct (tstepR (PTR f) f ts e) as [r e'|q e'|]; cbn [all_errs] in H; try discriminate.
    + right. exists suf. exact H.
    + destruct (recover_all ts q e') as [x ->]. right. exists suf. exact H.
Qed.

(* ---------- every Bad node has its error ---------- *)
Definition bads_fields (fs : list (option ident * rty)) : nat := fold_right (fun f n => bads (snd f) + n) 0 fs.

Lemma bads_struct s g fs : bads (RStruct s g fs) = bads_fields fs.
Proof. cbn [bads]. unfold bads_fields. induction fs as [|[oi x] r IH]; [reflexivity|]. cbn [fold_right snd]. rewrite <- IH. reflexivity. Qed.

Lemma bads_fields_app a b : bads_fields (a ++ b) = bads_fields a + bads_fields b.
Proof. unfold bads_fields. induction a as [|f r IH]; [reflexivity|]. cbn [app fold_right]. rewrite IH. lia. Qed.

Lemma rbind_ok {A B} (rr : rres A) (k : A -> list Z -> rres B) b e' : rbind rr k = ROk b e' -> exists a e1, rr = ROk a e1 /\ k a e1 = ROk b e'.
Proof. destruct rr as [a e1|p e1|]; cbn [rbind]; intros H; try discriminate. eauto. Qed.

Definition counts (pt : toks -> list Z -> rres (rty * toks)) : Prop :=
  forall ts e t K e', pt ts e = ROk (t, K) e' -> exists suf, e' = (e ++ suf)%list /\ bads t <= length suf.

Lemma pfieldR_counts pt ts e x K e' : counts pt -> pfieldR pt ts e = ROk (x, K) e' -> exists suf, e' = (e ++ suf)%list /\ bads (snd x) <= length suf.
Proof.
  intros C H. unfold pfieldR in H. destruct (kis (cur ts) K_ident && type_start (cur (next ts)));
    apply rbind_ok in H as ([t r] & e1 & H1 & H2); inversion H2; subst; cbn [snd]; eapply C; eauto.
Qed.

Lemma fields_moreR_counts pt : counts pt -> forall n acc ts e fs K e', fields_moreR pt n acc ts e = ROk (fs, K) e' ->
  exists more suf, fs = (acc ++ more)%list /\ e' = (e ++ suf)%list /\ bads_fields more <= length suf.
Proof.
  intros C. induction n as [|n IH]; intros acc ts e fs K e' H; [discriminate|]. cbn [fields_moreR] in H.
  destruct (kis (cur ts) ",").
  - apply rbind_ok in H as ([fl ts1] & e1 & H1 & H2).
    destruct (pfieldR_counts pt _ _ _ _ _ C H1) as (s1 & -> & B1).
    destruct (IH _ _ _ _ _ _ H2) as (more & s2 & -> & -> & B2).
    exists (fl :: more), (s1 ++ s2)%list. rewrite <- !app_assoc. split; [reflexivity|]. split; [reflexivity|].
    cbn [bads_fields fold_right]. fold (bads_fields more). rewrite app_length. lia.
  - inversion H; subst. exists [], []. rewrite !app_nil_r. cbn. auto.
Qed.

Lemma lift_ok' {A} (r : res A) e a e' : lift r e = ROk a e' -> e' = e.
Proof. intros H. apply lift_ok in H as [_ H]. exact H. Qed.

Lemma tstepR_counts pt n : counts pt -> counts (tstepR pt n).
Proof.
  intros C ts e t K e' H. unfold tstepR in H.
  destruct (kis (cur ts) K_ident).
  { destruct (simple_name (cur ts)).
    - inversion H; subst. exists []. rewrite app_nil_r. cbn. auto.
    - apply rbind_ok in H as ([ids r] & e1 & H1 & H2). apply lift_ok' in H1. inversion H2; subst. exists []. rewrite app_nil_r. cbn. auto. }
  destruct (kis (cur ts) "ARRAY").
  { apply rbind_ok in H as ([x ts1] & e1 & H1 & H). apply lift_ok' in H1. subst e1.
    apply rbind_ok in H as ([it ts2] & e2 & H2 & H). apply rbind_ok in H as ([g ts3] & e3 & H3 & H). apply lift_ok' in H3. subst e3.
    inversion H; subst. destruct (C _ _ _ _ _ H2) as (suf & -> & B). exists suf. cbn [bads]. auto. }
  destruct (kis (cur ts) "STRUCT"); [|discriminate].
  destruct (kis (cur (next ts)) "<>"); [inversion H; subst; exists []; rewrite app_nil_r; cbn; auto|].
  destruct (negb (kis (cur (next ts)) "<")); [discriminate|].
  apply rbind_ok in H as ([fs ts3] & e1 & H1 & H). apply rbind_ok in H as ([g ts4] & e4 & H4 & H). apply lift_ok' in H4. subst e4.
  inversion H; subst. rewrite bads_struct.
  destruct (kis (cur (next (next ts))) ">" || kis (cur (next (next ts))) ">>").
  - inversion H1; subst. exists []. rewrite app_nil_r. cbn. auto.
  - apply rbind_ok in H1 as ([f1 ts5] & e2 & H2 & H3).
    destruct (pfieldR_counts pt _ _ _ _ _ C H2) as (s1 & -> & B1).
    destruct (fields_moreR_counts pt C _ _ _ _ _ _ _ H3) as (more & s2 & -> & -> & B2).
    exists (s1 ++ s2)%list. rewrite <- app_assoc. split; [reflexivity|].
    rewrite bads_fields_app. cbn [bads_fields fold_right]. rewrite app_length. lia.
Qed.

Lemma PTR_counts : forall f, counts (PTR f).
Proof.
  induction f as [|f IH]; intros ts e t K e' H; [discriminate|]. cbn [PTR] in H.
  destruct (tstepR (PTR f) f ts e) as [[t0 r0] e0|p e0|] eqn:E; try discriminate.
  - inversion H; subst. eapply (tstepR_counts (PTR f) f IH); eauto.
  - (* a recovered failure: one Bad node, at least one new error *)
    pose proof (tstepR_grows (PTR f) f (PTR_grows f) ts e) as G. rewrite E in G. cbn [ext] in G. destruct G as [suf ->].
    unfold recover in H. destruct (tskip 0 ts [] (ppos (cur ts))) as [[sk endp] rest].
    inversion H; subst. exists (suf ++ [p])%list. rewrite app_assoc. split; [reflexivity|]. cbn [bads]. rewrite app_length. cbn [length]. lia.
Qed.

(* ---------- the success-path model never answers Unsup ---------- *)
Lemma path_more_no_unsup : forall n acc ts, path_more n acc ts <> Unsup.
Proof.
  induction n as [|n IH]; intros acc ts; [discriminate|]. cbn [path_more]. destruct (kis (cur ts) "."); [|discriminate].
  unfold parse_ident, expect. destruct (kis (cur (next ts)) K_ident); cbn [bind]; [apply IH|discriminate].
Qed.

Definition no_unsup (pt : toks -> res (ty * toks)) : Prop := forall ts, pt ts <> Unsup.

Lemma pfield_no_unsup pt ts : no_unsup pt -> pfield pt ts <> Unsup.
Proof.
  intros N. unfold pfield. destruct (kis (cur ts) K_ident && type_start (cur (next ts))).
  - pose proof (N (next ts)). destruct (pt (next ts)) as [[t r]| | |]; cbn [bind]; congruence.
  - pose proof (N ts). destruct (pt ts) as [[t r]| | |]; cbn [bind]; congruence.
Qed.

Lemma fields_more_no_unsup pt : no_unsup pt -> forall n acc ts, fields_more pt n acc ts <> Unsup.
Proof.
  intros N. induction n as [|n IH]; intros acc ts; [discriminate|]. cbn [fields_more]. destruct (kis (cur ts) ","); [|discriminate].
  pose proof (pfield_no_unsup pt (next ts) N). destruct (pfield pt (next ts)) as [[fl r]| | |]; cbn [bind]; try congruence; try apply IH.
Qed.

Lemma close_angle_no_unsup ts : close_angle ts <> Unsup.
Proof. unfold close_angle, expect. destruct (kis (cur ts) ">>"); [discriminate|]. destruct (kis (cur ts) ">"); cbn [bind]; discriminate. Qed.

Lemma tstep_no_unsup pt n : no_unsup pt -> no_unsup (tstep pt n).
Proof.
  intros N ts. unfold tstep.
  destruct (kis (cur ts) K_ident).
  { destruct (simple_name (cur ts)); [discriminate|]. pose proof (path_more_no_unsup n [mk_ident (cur ts)] (next ts)).
    destruct (path_more n [mk_ident (cur ts)] (next ts)) as [[ids r]| | |]; cbn [bind]; congruence. }
  destruct (kis (cur ts) "ARRAY").
  { unfold expect. destruct (kis (cur (next ts)) "<"); cbn [bind]; [|discriminate].
    pose proof (N (next (next ts))). destruct (pt (next (next ts))) as [[it ts2]| | |]; cbn [bind]; try congruence.
    pose proof (close_angle_no_unsup ts2). destruct (close_angle ts2) as [[g ts3]| | |]; cbn [bind]; congruence. }
  destruct (kis (cur ts) "STRUCT"); [|discriminate].
  destruct (kis (cur (next ts)) "<>"); [discriminate|]. destruct (negb (kis (cur (next ts)) "<")); [discriminate|].
  destruct (kis (cur (next (next ts))) ">" || kis (cur (next (next ts))) ">>").
  - cbn [bind]. pose proof (close_angle_no_unsup (next (next ts))). destruct (close_angle (next (next ts))) as [[g ts4]| | |]; cbn [bind]; congruence.
  - pose proof (pfield_no_unsup pt (next (next ts)) N). destruct (pfield pt (next (next ts))) as [[f1 ts3]| | |]; cbn [bind]; try congruence.
    pose proof (fields_more_no_unsup pt N n [f1] ts3). destruct (fields_more pt n [f1] ts3) as [[fs ts4]| | |]; cbn [bind]; try congruence.
    pose proof (close_angle_no_unsup ts4). destruct (close_angle ts4) as [[g ts5]| | |]; cbn [bind]; congruence.
Qed.

Lemma PT_no_unsup : forall f, no_unsup (PT f).
Proof. induction f as [|f IH]; intros ts; [discriminate|]. cbn [PT]. apply tstep_no_unsup, IH. Qed.

(* ---------- the error contract of ParseType (C09) ---------- *)
Theorem parse_typeR_contract : forall ts t errs, parse_typeR ts = Some (t, errs) ->
  bads t <= length errs /\
  (errs = [] <-> exists t0 r, parse_type ts = Ok (t0, r) /\ t = embed t0).
Proof.
  intros ts t errs H. unfold parse_typeR in H.
  destruct (PTR (type_fuel ts) ts []) as [[t1 ts1] e|p e|] eqn:E; try discriminate. inversion H; subst t1 errs. clear H.
  destruct (PTR_counts _ _ _ _ _ _ E) as (suf & -> & B). cbn [app] in *. split.
  { destruct (kis (cur ts1) K_eof); [exact B|rewrite app_length; lia]. }
  pose proof (PTR_simulates_PT (type_fuel ts) ts []) as S. rewrite E in S. unfold parse_type. split.
  - intros Z. destruct (kis (cur ts1) K_eof) eqn:KE; [|destruct suf; discriminate Z]. subst suf.
    destruct (PT (type_fuel ts) ts) as [[t0 K]|p| |] eqn:EP; cbn [rel] in S.
    + inversion S; subst. exists t0, K. cbn [bind]. rewrite KE. auto.
    + destruct S as [F|[s F]]; [discriminate|]. cbn [all_errs app] in F. inversion F.
    + exfalso. exact (PT_no_unsup _ _ EP).
    + exfalso. exact (parse_type_fuel ts EP).
  - intros (t0 & r & P & ->). destruct (PT (type_fuel ts) ts) as [[t1 K]|p| |] eqn:EP; cbn [bind] in P; try discriminate.
    cbn [rel] in S. inversion S; subst. destruct (kis (cur K) K_eof); [reflexivity|discriminate].
Qed.

(* ---------- a BadType holds exactly the skipped tokens (C10) ---------- *)
Definition end_of (d : Z) (l : list ptok) : Z := match rev l with t :: _ => pend t | [] => d end.

Lemma end_of_snoc d l t : end_of d (l ++ [t]) = pend t.
Proof. unfold end_of. rewrite rev_app_distr. reflexivity. Qed.

Lemma end_of_indep d d' (l : list ptok) : l <> [] -> end_of d l = end_of d' l.
Proof.
  intros NE. unfold end_of. destruct (rev l) eqn:R; [|reflexivity]. apply (f_equal (@rev ptok)) in R. rewrite rev_involutive in R. cbn in R. congruence.
Qed.

(* the tokens collected are a prefix of the input, in order and once each; the scan continues right after them -- at the same token, or
   at the second half of a ">>" whose first half closed a bracket opened inside the skipped text; NodeEnd is the end of the last one *)
Lemma tskip_spec : forall ts n acc endp sk e' rest, tskip n ts acc endp = (sk, e', rest) -> endp = end_of endp acc ->
  exists more, sk = (acc ++ more)%list /\ e' = end_of endp sk /\
    (ts = (more ++ rest)%list \/ exists t r, ts = (more ++ t :: r)%list /\ rest = half_keep t :: r /\ kis t ">>" = true).
Proof.
  induction ts as [|t r IH]; intros n acc endp sk e' rest H E; cbn [tskip] in H.
  - inversion H; subst. exists []. rewrite app_nil_r. auto.
  - assert (STOP : (sk, e', rest) = (acc, endp, t :: r) ->
            exists more, sk = (acc ++ more)%list /\ e' = end_of endp sk /\
              (t :: r = (more ++ rest)%list \/ exists t0 r0, t :: r = (more ++ t0 :: r0)%list /\ rest = half_keep t0 :: r0 /\ kis t0 ">>" = true)).
    { intros Q. inversion Q; subst. exists []. rewrite app_nil_r. auto. }
    assert (GO : forall n', tskip n' r (acc ++ [t]) (pend t) = (sk, e', rest) ->
            exists more, sk = (acc ++ more)%list /\ e' = end_of endp sk /\
              (t :: r = (more ++ rest)%list \/ exists t0 r0, t :: r = (more ++ t0 :: r0)%list /\ rest = half_keep t0 :: r0 /\ kis t0 ">>" = true)).
    { intros n' H'. destruct (IH _ _ _ _ _ _ H') as (more & -> & E2 & D). { rewrite end_of_snoc. reflexivity. }
      exists (t :: more). rewrite <- app_assoc. split; [reflexivity|]. split.
      - rewrite E2. rewrite <- app_assoc. cbn [app]. apply end_of_indep. destruct acc; discriminate.
      - destruct D as [D|(t0 & r0 & D1 & D2 & D3)]; [left; cbn [app]; rewrite D; reflexivity|].
        right. exists t0, r0. cbn [app]. rewrite D1. auto. }
    destruct (kis t K_eof || kis t ";" || kis t ")"); [apply STOP; symmetry; exact H|].
    destruct (kis t "<"); [eapply GO; eauto|].
    destruct (kis t ">"); [destruct n; [apply STOP; symmetry; exact H|eapply GO; eauto]|].
    destruct (kis t ">>") eqn:GG.
    { destruct n as [|[|n]]; [apply STOP; symmetry; exact H| |eapply GO; eauto].
      inversion H; subst. exists []. rewrite app_nil_r. split; [reflexivity|]. split; [exact E|]. right. exists t, r. auto. }
    destruct (kis t ","); [destruct n; [apply STOP; symmetry; exact H|eapply GO; eauto]|].
    eapply GO; eauto.
Qed.

Theorem recover_spec : forall ts p e t rest e', recover ts p e = ROk (t, rest) e' ->
  exists sk, t = RBad (ppos (cur ts)) (end_of (ppos (cur ts)) sk) sk /\ e' = (e ++ [p])%list /\
    (ts = (sk ++ rest)%list \/ exists x r, ts = (sk ++ x :: r)%list /\ rest = half_keep x :: r /\ kis x ">>" = true).
Proof.
  intros ts p e t rest e' H. unfold recover in H. destruct (tskip 0 ts [] (ppos (cur ts))) as [[sk endp] rest0] eqn:T.
  inversion H; subst. destruct (tskip_spec _ _ _ _ _ _ _ T eq_refl) as (more & E1 & E2 & D). cbn [app] in E1. subst more.
  exists sk. rewrite E2. auto.
Qed.
