(* Parse/StmtRespell.v -- C16 on the statement family of Parse/StmtModel.v: the result of the statement parser -- with its recovery -- is, up to
   position values and the normalisation of names, a function of the token KINDS, the identifier VALUES and the SPELLING OF IDENTIFIER-LIKE WORDS
   UP TO LETTER CASE only.  Hence changing white space and comments (which only moves positions) and the letter case of keywords and pseudo
   keywords never changes which statement is parsed, whether it is accepted, how many errors are recorded, the shape of the node, or which
   tokens a Bad node holds. *)
From Coq Require Import String.
From Verif Require Import Base.Bytes Tree.Tree Parse.ExprModel Parse.ExprFacts Parse.Respell Parse.TypeModel Parse.TypeProofs Parse.StmtModel.
From Coq Require Import Lia.
Local Open Scope Z_scope.

Section Sim.
  Variable norm : bytes -> bytes.
  Notation er_ident := (Respell.er_ident norm).

  (* two tokens of the same kind; identifier tokens (quoted or not) with the same value up to norm and the same spelling up to letter case *)
  Definition ssim (t t' : ptok) : Prop :=
    pk t = pk t' /\ (kis t K_ident = true -> norm (pstr t) = norm (pstr t') /\ to_upper (praw t) = to_upper (praw t')).
  Definition sssim (ts ts' : toks) : Prop := Forall2 ssim ts ts'.

  Lemma ssim_eof : ssim eof_tok eof_tok.
  Proof. split; [reflexivity|]. intros H. discriminate H. Qed.

  Lemma cur_sim ts ts' : sssim ts ts' -> ssim (cur ts) (cur ts').
  Proof. intros [|t t' r r' H _]; [apply ssim_eof|exact H]. Qed.

  Lemma next_sim ts ts' : sssim ts ts' -> sssim (next ts) (next ts').
  Proof.
    intros H. destruct H as [|t t' r r' H1 H2]; [constructor|].
    destruct H2 as [|u u' q q' H3 H4]; cbn [next].
    - apply Forall2_cons; [exact H1|apply Forall2_nil].
    - apply Forall2_cons; [exact H3|exact H4].
  Qed.

  Lemma kis_sim t t' : ssim t t' -> forall k, kis t k = kis t' k.
  Proof. intros (H & _) k. unfold kis. rewrite H. reflexivity. Qed.

  Lemma kwlike_sim t t' s : ssim t t' -> is_kwlike t s = is_kwlike t' s.
  Proof.
    intros H. unfold is_kwlike. rewrite <- (kis_sim _ _ H). destruct (kis t K_ident) eqn:K; [|reflexivity]. cbn [andb].
    destruct H as (_ & H). destruct (H K) as [_ R]. unfold equal_fold_s, equal_fold. rewrite R. reflexivity.
  Qed.

  Lemma sssim_length ts ts' : sssim ts ts' -> length ts = length ts'.
  Proof. induction 1; cbn; auto. Qed.

  Lemma er_ident_sim t t' : ssim t t' -> kis t K_ident = true -> er_ident (mk_ident t) = er_ident (mk_ident t').
  Proof.
    intros H K. unfold Respell.er_ident, mk_ident. cbn [id_name]. destruct H as (_ & H). destruct (H K) as [R _]. rewrite R. reflexivity.
  Qed.

  (* ---------- erasure of positions, normalisation of names ---------- *)
  Fixpoint er_field (f : dfield) : dfield :=
    match f with
    | FPos _ => FPos 0
    | FBool b => FBool b
    | FIdent i => FIdent (er_ident i)
    | FPath ids => FPath (map er_ident ids)
    | FIdents ids => FIdents (map er_ident ids)
    | FSub ty fs => FSub ty (map er_field fs)
    | FSubs l => FSubs (map er_field l)
    | FNil => FNil
    end.

  (* nodes: the same type and the same fields up to erasure; Bad nodes: the same level, tokens pairwise similar *)
  Definition dsim (d d' : dnode) : Prop :=
    match d, d' with
    | DNode ty fs, DNode ty' fs' => ty = ty' /\ map er_field fs = map er_field fs'
    | DBad l _ _ sk, DBad l' _ _ sk' => l = l' /\ sssim sk sk'
    | _, _ => False
    end.

  Definition rsim {A} (eqv : A -> A -> Prop) (r r' : res (A * toks)) : Prop :=
    match r, r' with
    | Ok (a, ts), Ok (a', ts') => eqv a a' /\ sssim ts ts'
    | Err _, Err _ => True
    | Unsup, Unsup => True
    | Fuel, Fuel => True
    | _, _ => False
    end.

  Definition eqf (a b : dfield) : Prop := er_field a = er_field b.
  Definition eqi (a b : ident) : Prop := er_ident a = er_ident b.
  Definition eqis (a b : list ident) : Prop := map er_ident a = map er_ident b.
  Definition eqfs (a b : list dfield) : Prop := map er_field a = map er_field b.

  Lemma bind_sim {A B} (eqv : A -> A -> Prop) (eqv2 : B -> B -> Prop) r r' (f f' : A * toks -> res (B * toks)) :
    rsim eqv r r' -> (forall a a' t t', eqv a a' -> sssim t t' -> rsim eqv2 (f (a, t)) (f' (a', t'))) -> rsim eqv2 (bind r f) (bind r' f').
  Proof.
    intros R F. destruct r as [[a t]| | |], r' as [[a' t']| | |]; cbn [rsim bind] in *; try contradiction; auto.
    destruct R as [E S]. exact (F _ _ _ _ E S).
  Qed.

  Lemma ok_sim {A} (eqv : A -> A -> Prop) a a' t t' : eqv a a' -> sssim t t' -> rsim eqv (Ok (a, t)) (Ok (a', t')).
  Proof. intros E S. cbn. auto. Qed.

  Lemma expect_sim k ts ts' : sssim ts ts' -> rsim ssim (expect k ts) (expect k ts').
  Proof.
    intros H. unfold expect. rewrite (kis_sim _ _ (cur_sim _ _ H)). destruct (kis (cur ts') k); cbn [rsim]; [|exact I].
    split; [apply cur_sim, H|apply next_sim, H].
  Qed.

  Lemma expect_kw_sim s ts ts' : sssim ts ts' -> rsim ssim (expect_kw s ts) (expect_kw s ts').
  Proof.
    intros H. unfold expect_kw. apply (bind_sim ssim ssim); [apply expect_sim, H|]. intros a a' t t' E S.
    cbn beta iota. rewrite (kwlike_sim _ _ s E). destruct (is_kwlike a' s); cbn [rsim]; auto.
  Qed.

  Lemma parse_ident_sim ts ts' : sssim ts ts' -> rsim eqi (parse_ident ts) (parse_ident ts').
  Proof.
    intros H. unfold parse_ident, expect. pose proof (cur_sim _ _ H) as C. rewrite <- (kis_sim _ _ C K_ident).
    destruct (kis (cur ts) K_ident) eqn:K; cbn [bind rsim]; [|exact I]. split; [exact (er_ident_sim _ _ C K)|apply next_sim, H].
  Qed.

  Lemma if_exists_sim ts ts' : sssim ts ts' -> rsim eq (if_exists ts) (if_exists ts').
  Proof.
    intros H. unfold if_exists. rewrite (kis_sim _ _ (cur_sim _ _ H)). destruct (kis (cur ts') "IF"); [|apply ok_sim; auto].
    apply (bind_sim ssim eq); [apply expect_sim, next_sim, H|]. intros a a' t t' _ S. apply ok_sim; auto.
  Qed.

  Lemma path_more_sim : forall n acc acc' ts ts', eqis acc acc' -> sssim ts ts' -> rsim eqis (path_more n acc ts) (path_more n acc' ts').
  Proof.
    induction n as [|n IH]; intros acc acc' ts ts' A H; [exact I|]. cbn [path_more].
    rewrite (kis_sim _ _ (cur_sim _ _ H)). destruct (kis (cur ts') "."); [|apply ok_sim; auto].
    apply (bind_sim eqi eqis); [apply parse_ident_sim, next_sim, H|]. intros i i' t t' E S. cbn beta iota.
    apply IH; [|exact S]. unfold eqis in *. rewrite !map_app. cbn [map]. unfold eqi in E. rewrite A, E. reflexivity.
  Qed.

  Lemma parse_path_sim ts ts' : sssim ts ts' -> rsim eqis (parse_path ts) (parse_path ts').
  Proof.
    intros H. unfold parse_path. rewrite (sssim_length _ _ H). apply (bind_sim eqi eqis); [apply parse_ident_sim, H|].
    intros i i' t t' E S. cbn beta iota. apply path_more_sim; [|exact S]. unfold eqis, eqi in *. cbn [map]. rewrite E. reflexivity.
  Qed.

  (* comma-separated lists of anything whose items are similar up to an erasure *)
  Section CommaList.
    Context {A : Type} (er : A -> A) (item : toks -> res (A * toks)).
    Hypothesis item_sim : forall ts ts', sssim ts ts' -> rsim (fun a b => er a = er b) (item ts) (item ts').

    Lemma list_more_sim : forall n acc acc' ts ts', map er acc = map er acc' -> sssim ts ts' ->
      rsim (fun l l' => map er l = map er l') (list_more item n acc ts) (list_more item n acc' ts').
    Proof.
      induction n as [|n IH]; intros acc acc' ts ts' E H; [exact I|]. cbn [list_more].
      rewrite (kis_sim _ _ (cur_sim _ _ H)). destruct (kis (cur ts') ","); [|apply ok_sim; auto].
      apply (bind_sim (fun a b => er a = er b) (fun l l' => map er l = map er l')); [apply item_sim, next_sim, H|].
      intros a a' t t' Ea S. cbn beta iota. apply IH; [|exact S]. rewrite !map_app. cbn [map]. rewrite E, Ea. reflexivity.
    Qed.

    Lemma comma_list_sim ts ts' : sssim ts ts' -> rsim (fun l l' => map er l = map er l') (comma_list item ts) (comma_list item ts').
    Proof.
      intros H. unfold comma_list. rewrite (sssim_length _ _ H).
      apply (bind_sim (fun a b => er a = er b) (fun l l' => map er l = map er l')); [apply item_sim, H|].
      intros a a' t t' Ea S. cbn beta iota. apply list_more_sim; [|exact S]. cbn [map]. rewrite Ea. reflexivity.
    Qed.
  End CommaList.

  Lemma idents_sim ts ts' : sssim ts ts' -> rsim eqis (comma_list parse_ident ts) (comma_list parse_ident ts').
  Proof. apply (comma_list_sim er_ident parse_ident). exact parse_ident_sim. Qed.

  (* ---------- RENAME TABLE, GRANT, REVOKE ---------- *)
  Lemma rename_to_sim ts ts' : sssim ts ts' -> rsim eqf (rename_to ts) (rename_to ts').
  Proof.
    intros H. unfold rename_to. apply (bind_sim eqi eqf); [apply parse_ident_sim, H|]. intros o o' t t' Eo S. cbn beta iota.
    apply (bind_sim ssim eqf); [apply expect_sim, S|]. intros x x' u u' _ S2. cbn beta iota.
    apply (bind_sim eqi eqf); [apply parse_ident_sim, S2|]. intros n n' v v' En S3. cbn beta iota.
    apply ok_sim; [|exact S3]. unfold eqf, eqi in *. cbn [er_field map]. rewrite Eo, En. reflexivity.
  Qed.

  Lemma parse_rename_sim pos pos' ts ts' : sssim ts ts' -> rsim dsim (parse_rename pos ts) (parse_rename pos' ts').
  Proof.
    intros H. unfold parse_rename. apply (bind_sim ssim dsim); [apply expect_kw_sim, H|]. intros x x' t t' _ S. cbn beta iota.
    apply (bind_sim eqfs dsim); [apply (comma_list_sim er_field rename_to rename_to_sim), S|]. intros l l' u u' El S2. cbn beta iota.
    apply ok_sim; [|exact S2]. cbn [dsim]. split; [reflexivity|]. cbn [map er_field]. unfold eqfs in El. rewrite El. reflexivity.
  Qed.

  Definition eqcr (a b : dfield * Z) : Prop := er_field (fst a) = er_field (fst b).

  Lemma priv_columns_sim ts ts' : sssim ts ts' -> rsim eqcr (priv_columns ts) (priv_columns ts').
  Proof.
    intros H. unfold priv_columns. rewrite (kis_sim _ _ (cur_sim _ _ H)). destruct (kis (cur ts') "("); [|apply ok_sim; [reflexivity|exact H]].
    apply (bind_sim eqis eqcr); [apply idents_sim, next_sim, H|]. intros cols cols' t t' Ec S. cbn beta iota.
    apply (bind_sim ssim eqcr); [apply expect_sim, S|]. intros rp rp' u u' _ S2. cbn beta iota.
    apply ok_sim; [|exact S2]. unfold eqcr, eqis in *. cbn [fst er_field]. rewrite Ec. reflexivity.
  Qed.

  Lemma with_cols_sim ty (z z' : Z) ts ts' : sssim ts ts' ->
    rsim eqf (do (cr, r) <- priv_columns ts; let '(cols, rp) := cr in Ok (FSub ty [FPos z; FPos rp; cols], r))
             (do (cr, r) <- priv_columns ts'; let '(cols, rp) := cr in Ok (FSub ty [FPos z'; FPos rp; cols], r)).
  Proof.
    intros H. apply (bind_sim eqcr eqf); [apply priv_columns_sim, H|]. intros [cols rp] [cols' rp'] t t' E S. cbn beta iota.
    apply ok_sim; [|exact S]. unfold eqf, eqcr in *. cbn [fst] in E. cbn [er_field map]. rewrite E. reflexivity.
  Qed.

  Lemma table_privilege_sim ts ts' : sssim ts ts' -> rsim eqf (table_privilege ts) (table_privilege ts').
  Proof.
    intros H. unfold table_privilege. cbv zeta. pose proof (cur_sim _ _ H) as C. pose proof (next_sim _ _ H) as N.
    rewrite (kis_sim _ _ C "SELECT"), (kwlike_sim _ _ "INSERT" C), (kwlike_sim _ _ "UPDATE" C), (kwlike_sim _ _ "DELETE" C).
    destruct (kis (cur ts') "SELECT"); [apply with_cols_sim, N|].
    destruct (is_kwlike (cur ts') "INSERT"); [apply with_cols_sim, N|].
    destruct (is_kwlike (cur ts') "UPDATE"); [apply with_cols_sim, N|].
    destruct (is_kwlike (cur ts') "DELETE"); [|exact I]. apply ok_sim; [reflexivity|exact N].
  Qed.

  Lemma privilege_sim ts ts' : sssim ts ts' -> rsim eqf (privilege ts) (privilege ts').
  Proof.
    intros H. unfold privilege. cbv zeta.
    pose proof (cur_sim _ _ H) as C. pose proof (next_sim _ _ H) as N1. pose proof (cur_sim _ _ N1) as C1.
    pose proof (next_sim _ _ N1) as N2. pose proof (cur_sim _ _ N2) as C2. pose proof (next_sim _ _ N2) as N3.
    rewrite (kis_sim _ _ C "SELECT"), (kis_sim _ _ C1 "ON"), (kwlike_sim _ _ "VIEW" C2), (kwlike_sim _ _ "CHANGE" C2),
            (kwlike_sim _ _ "EXECUTE" C), (kwlike_sim _ _ "ROLE" C).
    destruct (kis (cur ts') "SELECT" && kis (cur (next ts')) "ON" && is_kwlike (cur (next (next ts'))) "VIEW").
    { apply (bind_sim eqis eqf); [apply idents_sim, N3|]. intros names names' t t' E S. cbn beta iota.
      apply ok_sim; [|exact S]. unfold eqf, eqis in *. cbn [er_field map]. rewrite E. reflexivity. }
    destruct (is_kwlike (cur ts') "EXECUTE").
    { apply (bind_sim ssim eqf); [apply expect_sim, N1|]. intros x x' t t' _ S. cbn beta iota.
      apply (bind_sim ssim eqf); [apply expect_kw_sim, S|]. intros y y' u u' _ S2. cbn beta iota.
      apply (bind_sim ssim eqf); [apply expect_kw_sim, S2|]. intros z z' v v' _ S3. cbn beta iota.
      apply (bind_sim eqis eqf); [apply idents_sim, S3|]. intros names names' w w' E S4. cbn beta iota.
      apply ok_sim; [|exact S4]. unfold eqf, eqis in *. cbn [er_field map]. rewrite E. reflexivity. }
    destruct (is_kwlike (cur ts') "ROLE").
    { apply (bind_sim eqis eqf); [apply idents_sim, N1|]. intros names names' t t' E S. cbn beta iota.
      apply ok_sim; [|exact S]. unfold eqf, eqis in *. cbn [er_field map]. rewrite E. reflexivity. }
    destruct (kis (cur ts') "SELECT" && kis (cur (next ts')) "ON" && is_kwlike (cur (next (next ts'))) "CHANGE").
    { apply (bind_sim ssim eqf); [apply expect_kw_sim, N3|]. intros x x' t t' _ S. cbn beta iota.
      apply (bind_sim eqis eqf); [apply idents_sim, S|]. intros names names' u u' E S2. cbn beta iota.
      apply ok_sim; [|exact S2]. unfold eqf, eqis in *. cbn [er_field map]. rewrite E. reflexivity. }
    apply (bind_sim eqfs eqf); [apply (comma_list_sim er_field table_privilege table_privilege_sim), H|]. intros privs privs' t t' Ep S. cbn beta iota.
    apply (bind_sim ssim eqf); [apply expect_sim, S|]. intros x x' u u' _ S2. cbn beta iota.
    apply (bind_sim ssim eqf); [apply expect_kw_sim, S2|]. intros y y' v v' _ S3. cbn beta iota.
    apply (bind_sim eqis eqf); [apply idents_sim, S3|]. intros names names' w w' E S4. cbn beta iota.
    apply ok_sim; [|exact S4]. unfold eqf, eqis, eqfs in *. cbn [er_field map]. rewrite E, Ep. reflexivity.
  Qed.

  Lemma parse_grant_sim rv pos pos' ts ts' : sssim ts ts' -> rsim dsim (parse_grant rv pos ts) (parse_grant rv pos' ts').
  Proof.
    intros H. unfold parse_grant. apply (bind_sim eqf dsim); [apply privilege_sim, H|]. intros pv pv' t t' Ep S. cbn beta iota.
    apply (bind_sim ssim dsim); [apply expect_sim, S|]. intros x x' u u' _ S2. cbn beta iota.
    apply (bind_sim ssim dsim); [apply expect_kw_sim, S2|]. intros y y' v v' _ S3. cbn beta iota.
    apply (bind_sim eqis dsim); [apply idents_sim, S3|]. intros roles roles' w w' E S4. cbn beta iota.
    apply ok_sim; [|exact S4]. cbn [dsim]. split; [reflexivity|]. unfold eqf, eqis in *. cbn [map er_field]. rewrite Ep, E. reflexivity.
  Qed.

  (* ---------- PROTO BUNDLE, ALTER INDEX ---------- *)
  Lemma named_type_sim ts ts' : sssim ts ts' -> rsim eqf (named_type ts) (named_type ts').
  Proof.
    intros H. unfold named_type. apply (bind_sim eqis eqf); [apply parse_path_sim, H|]. intros ids ids' t t' E S. cbn beta iota.
    apply ok_sim; [|exact S]. unfold eqf, eqis in *. cbn [er_field map]. rewrite E. reflexivity.
  Qed.

  Lemma bundle_types_sim ts ts' : sssim ts ts' -> rsim eqf (bundle_types ts) (bundle_types ts').
  Proof.
    intros H. unfold bundle_types. apply (bind_sim ssim eqf); [apply expect_sim, H|]. intros lp lp' t t' _ S. cbn beta iota.
    apply (bind_sim eqfs eqf); [apply (comma_list_sim er_field named_type named_type_sim), S|]. intros tys tys' u u' E S2. cbn beta iota.
    apply (bind_sim ssim eqf); [apply expect_sim, S2|]. intros rp rp' v v' _ S3. cbn beta iota.
    apply ok_sim; [|exact S3]. unfold eqf, eqfs in *. cbn [er_field map]. rewrite E. reflexivity.
  Qed.

  Lemma bundle_clause_sim kw ty ts ts' : sssim ts ts' -> rsim eqf (bundle_clause kw ty ts) (bundle_clause kw ty ts').
  Proof.
    intros H. unfold bundle_clause. rewrite (kwlike_sim _ _ kw (cur_sim _ _ H)). destruct (is_kwlike (cur ts') kw); [|apply ok_sim; [reflexivity|exact H]].
    apply (bind_sim eqf eqf); [apply bundle_types_sim, next_sim, H|]. intros tys tys' t t' E S. cbn beta iota.
    apply ok_sim; [|exact S]. unfold eqf in *. cbn [er_field map]. rewrite E. reflexivity.
  Qed.

  Lemma parse_create_bundle_sim pos pos' ts ts' : sssim ts ts' -> rsim dsim (parse_create_bundle pos ts) (parse_create_bundle pos' ts').
  Proof.
    intros H. unfold parse_create_bundle. apply (bind_sim ssim dsim); [apply expect_sim, H|]. intros x x' t t' _ S. cbn beta iota.
    apply (bind_sim ssim dsim); [apply expect_kw_sim, S|]. intros y y' u u' _ S2. cbn beta iota.
    apply (bind_sim eqf dsim); [apply bundle_types_sim, S2|]. intros tys tys' v v' E S3. cbn beta iota.
    apply ok_sim; [|exact S3]. cbn [dsim]. split; [reflexivity|]. unfold eqf in E. cbn [map er_field]. rewrite E. reflexivity.
  Qed.

  Lemma parse_alter_bundle_sim pos pos' ts ts' : sssim ts ts' -> rsim dsim (parse_alter_bundle pos ts) (parse_alter_bundle pos' ts').
  Proof.
    intros H. unfold parse_alter_bundle. apply (bind_sim ssim dsim); [apply expect_sim, H|]. intros x x' t t' _ S. cbn beta iota.
    apply (bind_sim ssim dsim); [apply expect_kw_sim, S|]. intros b b' u u' _ S2. cbn beta iota.
    apply (bind_sim eqf dsim); [apply bundle_clause_sim, S2|]. intros i i' v v' Ei S3. cbn beta iota.
    apply (bind_sim eqf dsim); [apply bundle_clause_sim, S3|]. intros up up' w w' Eu S4. cbn beta iota.
    apply (bind_sim eqf dsim); [apply bundle_clause_sim, S4|]. intros d d' z z' Ed S5. cbn beta iota.
    apply ok_sim; [|exact S5]. cbn [dsim]. split; [reflexivity|]. unfold eqf in *. cbn [map er_field]. rewrite Ei, Eu, Ed. reflexivity.
  Qed.

  Lemma index_alteration_sim ts ts' : sssim ts ts' -> rsim eqf (index_alteration ts) (index_alteration ts').
  Proof.
    intros H. unfold index_alteration. cbv zeta. pose proof (cur_sim _ _ H) as C.
    rewrite (kwlike_sim _ _ "ADD" C), (kwlike_sim _ _ "DROP" C). destruct (is_kwlike (cur ts') "ADD" || is_kwlike (cur ts') "DROP"); [|exact I].
    apply (bind_sim ssim eqf); [apply expect_kw_sim, next_sim, H|]. intros x x' t t' _ S. cbn beta iota.
    apply (bind_sim ssim eqf); [apply expect_kw_sim, S|]. intros y y' u u' _ S2. cbn beta iota.
    apply (bind_sim eqi eqf); [apply parse_ident_sim, S2|]. intros i i' v v' E S3. cbn beta iota.
    apply ok_sim; [|exact S3]. unfold eqf, eqi in *. cbn [er_field map]. rewrite E. reflexivity.
  Qed.

  Lemma parse_alter_index_sim pos pos' ts ts' : sssim ts ts' -> rsim dsim (parse_alter_index pos ts) (parse_alter_index pos' ts').
  Proof.
    intros H. unfold parse_alter_index. apply (bind_sim ssim dsim); [apply expect_kw_sim, H|]. intros x x' t t' _ S. cbn beta iota.
    apply (bind_sim eqis dsim); [apply parse_path_sim, S|]. intros ids ids' u u' E S2. cbn beta iota.
    apply (bind_sim eqf dsim); [apply index_alteration_sim, S2|]. intros a a' v v' Ea S3. cbn beta iota.
    apply ok_sim; [|exact S3]. cbn [dsim]. split; [reflexivity|]. unfold eqf, eqis in *. cbn [map er_field]. rewrite E, Ea. reflexivity.
  Qed.

  Lemma parse_alter_search_index_sim pos pos' ts ts' : sssim ts ts' ->
    rsim dsim (parse_alter_search_index pos ts) (parse_alter_search_index pos' ts').
  Proof.
    intros H. unfold parse_alter_search_index. apply (bind_sim ssim dsim); [apply expect_kw_sim, H|]. intros x x' t t' _ S. cbn beta iota.
    apply (bind_sim ssim dsim); [apply expect_kw_sim, S|]. intros y y' u u' _ S2. cbn beta iota.
    apply (bind_sim eqi dsim); [apply parse_ident_sim, S2|]. intros i i' v v' E S3. cbn beta iota.
    apply (bind_sim eqf dsim); [apply index_alteration_sim, S3|]. intros a a' w w' Ea S4. cbn beta iota.
    apply ok_sim; [|exact S4]. cbn [dsim]. split; [reflexivity|]. unfold eqf, eqi in *. cbn [map er_field]. rewrite E, Ea. reflexivity.
  Qed.

  (* ---------- the fixed-word statements ---------- *)
  Lemma word_matches_sim w t t' : ssim t t' -> word_matches w t = word_matches w t'.
  Proof. intros H. destruct w as [s|k]; cbn [word_matches]; [apply kwlike_sim, H|apply kis_sim, H]. Qed.

  Lemma expect_word_sim w ts ts' : sssim ts ts' -> rsim ssim (expect_word w ts) (expect_word w ts').
  Proof. intros H. destruct w as [s|k]; cbn [expect_word]; [apply expect_kw_sim, H|apply expect_sim, H]. Qed.

  Lemma expect_words_sim : forall ws ts ts' lp lp', sssim ts ts' -> rsim (fun _ _ => True) (expect_words ws ts lp) (expect_words ws ts' lp').
  Proof.
    induction ws as [|w r IH]; intros ts ts' lp lp' H; cbn [expect_words]; [apply ok_sim; auto|].
    apply (bind_sim ssim (fun _ _ => True)); [apply expect_word_sim, H|]. intros t t' u u' _ S. cbn beta iota. apply IH, S.
  Qed.

  Lemma parse_row_sim pos pos' r ts ts' : sssim ts ts' -> rsim dsim (parse_row pos r ts) (parse_row pos' r ts').
  Proof.
    intros H. unfold parse_row. apply (bind_sim (fun _ _ => True) dsim); [apply expect_words_sim, H|]. intros lp lp' t t' _ S. cbn beta iota.
    apply (bind_sim eq dsim).
    { destruct (r_ifexists r); [apply if_exists_sim, S|apply ok_sim; auto]. }
    intros ie ie' u u' -> S2. cbn beta iota.
    assert (PRE : map er_field (FPos pos :: (if r_lastpos r then [FPos lp] else []) ++ (if r_ifexists r then [FBool ie'] else []))
                = map er_field (FPos pos' :: (if r_lastpos r then [FPos lp'] else []) ++ (if r_ifexists r then [FBool ie'] else []))).
    { destruct (r_lastpos r), (r_ifexists r); reflexivity. }
    destruct (r_name r).
    - apply ok_sim; [|exact S2]. cbn [dsim]. split; [reflexivity|exact PRE].
    - apply (bind_sim eqi dsim); [apply parse_ident_sim, S2|]. intros i i' v v' E S3. cbn beta iota.
      apply ok_sim; [|exact S3]. cbn [dsim]. split; [reflexivity|]. rewrite !map_app, PRE. cbn [map er_field]. unfold eqi in E. rewrite E. reflexivity.
    - apply (bind_sim eqis dsim); [apply parse_path_sim, S2|]. intros ids ids' v v' E S3. cbn beta iota.
      apply ok_sim; [|exact S3]. cbn [dsim]. split; [reflexivity|]. rewrite !map_app, PRE. cbn [map er_field]. unfold eqis in E. rewrite E. reflexivity.
  Qed.

  Lemma find_row_sim rows t t' : ssim t t' -> find_row rows t = find_row rows t'.
  Proof.
    intros H. induction rows as [|r rest IH]; [reflexivity|]. cbn [find_row]. destruct (r_words r) as [|w ws]; [exact IH|].
    rewrite (word_matches_sim w _ _ H), IH. reflexivity.
  Qed.

  Lemma other_create_sim t t' : ssim t t' -> other_create t = other_create t'.
  Proof. intros H. unfold other_create. rewrite !(kwlike_sim _ _ _ H), !(kis_sim _ _ H). reflexivity. Qed.

  Lemma other_alter_sim t t' : ssim t t' -> other_alter t = other_alter t'.
  Proof. intros H. unfold other_alter. rewrite !(kwlike_sim _ _ _ H). reflexivity. Qed.

  Definition osim (o o' : option (res (dnode * toks))) : Prop :=
    match o, o' with None, None => True | Some r, Some r' => rsim dsim r r' | _, _ => False end.

  Lemma ddl_body_sim ts ts' : sssim ts ts' -> osim (ddl_body ts) (ddl_body ts').
  Proof.
    intros H. unfold ddl_body. cbv zeta. pose proof (cur_sim _ _ H) as C. pose proof (next_sim _ _ H) as N. pose proof (cur_sim _ _ N) as C1.
    rewrite (kis_sim _ _ C "CREATE"), (kwlike_sim _ _ "DROP" C), (kwlike_sim _ _ "ANALYZE" C), (kwlike_sim _ _ "RENAME" C),
            (kwlike_sim _ _ "GRANT" C), (kwlike_sim _ _ "REVOKE" C), (kwlike_sim _ _ "ALTER" C).
    destruct (kis (cur ts') "CREATE").
    { rewrite (find_row_sim create_rows _ _ C1). destruct (find_row create_rows (cur (next ts'))) as [r|]; [cbn [osim]; apply parse_row_sim, N|].
      rewrite (kis_sim _ _ C1 "PROTO"). destruct (kis (cur (next ts')) "PROTO"); [cbn [osim]; apply parse_create_bundle_sim, N|].
      rewrite (other_create_sim _ _ C1). destruct (other_create (cur (next ts'))); cbn; auto. }
    destruct (is_kwlike (cur ts') "DROP").
    { rewrite (find_row_sim drop_rows _ _ C1). destruct (find_row drop_rows (cur (next ts'))) as [r|]; [cbn [osim]; apply parse_row_sim, N|cbn; auto]. }
    destruct (is_kwlike (cur ts') "ANALYZE").
    { cbn [osim]. apply (bind_sim ssim dsim); [apply expect_kw_sim, H|]. intros a a' t t' _ S. cbn beta iota. apply ok_sim; [|exact S]. cbn. auto. }
    destruct (is_kwlike (cur ts') "RENAME"); [cbn [osim]; apply parse_rename_sim, N|].
    destruct (is_kwlike (cur ts') "GRANT"); [cbn [osim]; apply parse_grant_sim, N|].
    destruct (is_kwlike (cur ts') "REVOKE"); [cbn [osim]; apply parse_grant_sim, N|].
    destruct (is_kwlike (cur ts') "ALTER"); [|cbn; auto].
    rewrite (kis_sim _ _ C1 "PROTO"), (kwlike_sim _ _ "INDEX" C1), (kwlike_sim _ _ "SEARCH" C1), (other_alter_sim _ _ C1).
    destruct (kis (cur (next ts')) "PROTO"); [cbn [osim]; apply parse_alter_bundle_sim, N|].
    destruct (is_kwlike (cur (next ts')) "INDEX"); [cbn [osim]; apply parse_alter_index_sim, N|].
    destruct (is_kwlike (cur (next ts')) "SEARCH"); [cbn [osim]; apply parse_alter_search_index_sim, N|].
    destruct (other_alter (cur (next ts'))); cbn; auto.
  Qed.

  (* ---------- recovery ---------- *)
  Lemma sskip_sim : forall ts ts' acc acc' e e', sssim ts ts' -> sssim acc acc' ->
    let '(sk, _, rest) := sskip ts acc e in let '(sk', _, rest') := sskip ts' acc' e' in sssim sk sk' /\ sssim rest rest'.
  Proof.
    induction ts as [|t r IH]; intros ts' acc acc' e e' H A; inversion H as [|? t' ? r' Ht Hr]; subst; cbn [sskip]; [split; [exact A|constructor]|].
    rewrite (kis_sim _ _ Ht K_eof), (kis_sim _ _ Ht ";"). destruct (kis t' K_eof || kis t' ";"); [split; [exact A|exact H]|].
    apply IH; [exact Hr|]. apply Forall2_app; [exact A|constructor; [exact Ht|constructor]].
  Qed.

  Definition psim (o o' : option (dnode * toks * nat)) : Prop :=
    match o, o' with
    | None, None => True
    | Some (d, r, e), Some (d', r', e') => dsim d d' /\ sssim r r' /\ e = e'
    | _, _ => False
    end.

  Lemma bad_sim lvl ts ts' : sssim ts ts' ->
    psim (let '(sk, endp, rest) := sskip ts [] (ppos (cur ts)) in Some (DBad lvl (ppos (cur ts)) endp sk, rest, 1%nat))
         (let '(sk, endp, rest) := sskip ts' [] (ppos (cur ts')) in Some (DBad lvl (ppos (cur ts')) endp sk, rest, 1%nat)).
  Proof.
    intros H. pose proof (sskip_sim ts ts' [] [] (ppos (cur ts)) (ppos (cur ts')) H (Forall2_nil _)) as K.
    destruct (sskip ts [] (ppos (cur ts))) as [[sk endp] rest], (sskip ts' [] (ppos (cur ts'))) as [[sk' endp'] rest'].
    destruct K as [K1 K2]. cbn [psim dsim]. auto.
  Qed.

  Theorem sp_ddl_sim ts ts' : sssim ts ts' -> psim (sp_ddl ts) (sp_ddl ts').
  Proof.
    intros H. unfold sp_ddl. pose proof (ddl_body_sim _ _ H) as B. pose proof (bad_sim false _ _ H) as BAD.
    destruct (ddl_body ts) as [[[d r]|p| |]|], (ddl_body ts') as [[[d' r']|p'| |]|]; cbn [osim rsim] in B; try contradiction; try exact BAD; [|exact I].
    destruct B as [B1 B2]. cbn [psim]. auto.
  Qed.

  Theorem sp_stmt_sim ts ts' : sssim ts ts' -> psim (sp_stmt ts) (sp_stmt ts').
  Proof.
    intros H. unfold sp_stmt. cbv zeta. pose proof (cur_sim _ _ H) as C.
    rewrite !(kis_sim _ _ C), !(kwlike_sim _ _ _ C).
    destruct (kis (cur ts') "@"); [exact I|].
    destruct (kis (cur ts') "SELECT" || kis (cur ts') "WITH" || kis (cur ts') "(" || kis (cur ts') "FROM"); [exact I|].
    destruct (is_kwlike (cur ts') "INSERT" || is_kwlike (cur ts') "DELETE" || is_kwlike (cur ts') "UPDATE"); [exact I|].
    destruct (kis (cur ts') "CREATE" || is_kwlike (cur ts') "ALTER" || is_kwlike (cur ts') "DROP" || is_kwlike (cur ts') "RENAME" || is_kwlike (cur ts') "GRANT"
              || is_kwlike (cur ts') "REVOKE" || is_kwlike (cur ts') "ANALYZE"); [apply sp_ddl_sim, H|].
    destruct (is_kwlike (cur ts') "CALL"); [exact I|]. apply (bad_sim true), H.
  Qed.
End Sim.

(* decidable version of the token relation at norm = to_upper, for the correspondence runs *)
Definition ssimb (t t' : ptok) : bool :=
  bytes_eqb (pk t) (pk t') &&
  (negb (kis t K_ident) || (bytes_eqb (to_upper (pstr t)) (to_upper (pstr t')) && bytes_eqb (to_upper (praw t)) (to_upper (praw t')))).
Fixpoint same_stmt_tokensb (a b : toks) : bool :=
  match a, b with
  | [], [] => true
  | x :: a', y :: b' => ssimb x y && same_stmt_tokensb a' b'
  | _, _ => false
  end.
Definition same_stmt_tokens : toks -> toks -> Prop := sssim to_upper.

Lemma same_stmt_tokensb_ok : forall a b, same_stmt_tokensb a b = true -> same_stmt_tokens a b.
Proof.
  induction a as [|x a IH]; intros [|y b] H; try discriminate; [constructor|].
  cbn [same_stmt_tokensb] in H. apply andb_true_iff in H as [H1 H2]. constructor; [|apply IH, H2].
  unfold ssimb in H1. apply andb_true_iff in H1 as [A B]. apply bytes_eqb_eq in A. split; [exact A|].
  intros K. rewrite K in B. cbn [negb orb] in B. apply andb_true_iff in B as [B1 B2]. apply bytes_eqb_eq in B1, B2. auto.
Qed.
