(* Parse/StmtAccept.v -- C08 on the fixed-word statements of the family: every statement form of the two tables -- the words of the row, IF EXISTS
   where the row allows it, an identifier where the row takes a name -- is ACCEPTED by the model of parseDDL, whatever the positions and the
   name, and yields the node of the row with exactly these fields.  (Statement of the documented grammar => accepted, node as documented.) *)
From Coq Require Import String.
From Verif Require Import Base.Bytes Tree.Tree Parse.ExprModel Parse.TypeModel Parse.StmtModel.
Local Open Scope Z_scope.

Definition kwtok (w : word) (p : Z) : ptok :=
  match w with
  | KwLike s => {| pk := bs K_ident; praw := bs s; pstr := bs s; ppos := p; pend := p; pbase := 0 |}
  | Kind k => {| pk := bs k; praw := bs k; pstr := []; ppos := p; pend := p; pbase := 0 |}
  end.
Definition idtok (raw nm : bytes) (p e : Z) : ptok := {| pk := bs K_ident; praw := raw; pstr := nm; ppos := p; pend := e; pbase := 0 |}.
Definition eoft (p : Z) : ptok := {| pk := bs K_eof; praw := []; pstr := []; ppos := p; pend := p; pbase := 0 |}.

(* the statement of row [r] after the head word [hd] (DROP / CREATE), and the node it must produce *)
Definition row_sentence (hd : ptok) (r : row) (p : Z) (ie : bool) (raw nm : bytes) (q e pe : Z) : toks :=
  hd :: (map (fun w => kwtok w p) (r_words r)
         ++ (if ie then [kwtok (Kind "IF") p; kwtok (Kind "EXISTS") p] else [])
         ++ (match r_name r with NoName => [] | _ => [idtok raw nm q e] end)
         ++ [eoft pe])%list.
Definition row_node (hd : ptok) (r : row) (p : Z) (ie : bool) (nm : bytes) (q e : Z) : dnode :=
  let i := {| id_pos := q; id_end := e; id_name := nm |} in
  DNode (r_node r) (FPos (ppos hd) :: (if r_lastpos r then [FPos p] else []) ++ (if r_ifexists r then [FBool ie] else [])
                    ++ match r_name r with NoName => [] | NIdent => [FIdent i] | NPath => [FPath [i]] end)%list.

Definition row_accepted (hd : ptok) (r : row) : Prop :=
  forall p ie raw nm q e pe, (ie = true -> r_ifexists r = true) ->
    ddl_body (row_sentence hd r p ie raw nm q e pe) = Some (Ok (row_node hd r p ie nm q e, [eoft pe])).

Ltac row_acc := intros p ie raw nm q e pe IE; destruct ie; [try (specialize (IE eq_refl); discriminate IE)|]; vm_compute; reflexivity.

Theorem drop_statements_accepted : forall p0, Forall (row_accepted (kwtok (KwLike "DROP") p0)) drop_rows.
Proof. intros p0. repeat (constructor; [row_acc|]). constructor. Qed.

Theorem create_statements_accepted : forall p0, Forall (row_accepted (kwtok (Kind "CREATE") p0)) create_rows.
Proof. intros p0. repeat (constructor; [row_acc|]). constructor. Qed.
