(* GenChecks.v -- the per-run obligations: boolean checks of the data regenerated from /repo's current source,
   decided by the kernel (vm_compute).  A change to ast.go / pos.go / walk_internal.go changes Gen/*.v and these
   lemmas are re-checked; a failing one stops the build of every property file that depends on it. *)
From Verif Require Import Tree.Tree Tree.PosLang Tree.PosProofs Tree.Walk Tree.Checkers.
From Verif Require Import Gen.Schema Gen.PosSpec Gen.PosImpl Gen.WalkImpl.

Lemma schema_checked : schema_ok schema ifaces = true.
Proof. vm_compute. reflexivity. Qed.

(* C19: for all node types, pos.go's methods are the compilation of the documented expressions, which are well formed *)
Lemma pos_tables_checked : pos_tables_ok schema pos_spec pos_impl = true.
Proof. vm_compute. reflexivity. Qed.

(* C17/C19: one case per node type pushing its node-typed fields in reverse declaration order *)
Lemma walk_table_checked : walk_table_ok schema walk_impl = true.
Proof. vm_compute. reflexivity. Qed.

(* ---------- printer programs (Gen/PrintProg.v from ast/sql.go) ---------- *)
From Verif Require Import Tree.Printer Gen.PrintProg.

(* C04/C01: one SQL() program per node type, kinds fit the struct, opaque exactly where a hand model exists,
   exprPrec has an entry for every implementer of Expr and for nothing else *)
Lemma printer_checked : printer_ok schema ifaces sql_prog prec_table = true.
Proof. vm_compute. reflexivity. Qed.

(* C01/C02: SQL() reads every field that is not a bare position (nothing the parser stored can silently disappear),
   except the recorded finding(s): on the pinned tree exactly Join.Method (known_findings.json KF-join-method) *)
Definition known_unread : list (string * string) := [("Join", "Method")]%string.
Lemma unread_fields_checked : forallb (fun x => pair_mem x known_unread) (unread_fields schema sql_prog) = true.
Proof. vm_compute. reflexivity. Qed.

(* C01: every list separator separates tokens *)
Lemma separators_checked : bad_separators sql_prog = [].
Proof. vm_compute. reflexivity. Qed.

(* ---------- package-level state (Gen/Globals.v from all library packages) ---------- *)
From Verif Require Import Gen.Globals.
(* C18: no package-level variable is written, address-taken or appended to outside init(); no goroutines, no sync/atomic/
   unsafe; struct fields are written only through receivers of the per-call objects Parser, Lexer, File *)
Lemma globals_checked :
  globals_ok global_writes go_statements concurrency_imports receiver_field_writes ["Parser"; "Lexer"; "File"]%string = true.
Proof. vm_compute. reflexivity. Qed.

(* ---------- panic-escape analysis (Gen/SkeletonData.v from parser.go, lexer.go, split.go) ---------- *)
From Verif Require Import Skel.Skeleton Gen.SkeletonData.
(* C03/C09: the proposed set of functions a *Error panic can leave is a post-fixpoint of the regenerated skeleton, and no
   exported function or method belongs to it *)
Definition escaping_now : list string := Eval vm_compute in escaping skeleton.
Lemma escape_postfix_checked : is_postfix skeleton escaping_now = true.
Proof. vm_compute. reflexivity. Qed.
Lemma entries_do_not_escape : forallb (fun f => negb (smem f escaping_now)) entry_points = true.
Proof. vm_compute. reflexivity. Qed.

(* C09: the error-list discipline holds syntactically in the current source *)
Definition error_discipline_ok (ew bs es : list (string * bool)) (entries : list string) : bool :=
  forallb snd ew && forallb snd bs && forallb snd es
  && negb (match bs with [] => true | _ => false end)
  (* every exported Parser.ParseX method is among the shaped entries *)
  && forallb (fun f => if String.prefix "Parser.Parse" f then smem f (map fst es) else true) entries.
Lemma error_discipline_checked : error_discipline_ok errors_writes bad_sites entry_shapes entry_points = true.
Proof. vm_compute. reflexivity. Qed.

(* ---------- C07: exprPrec (regenerated from ast/sql.go) agrees with the reference operator table ---------- *)
From Verif Require Import Parse.ExprModel Parse.Spell.
Definition prec_agrees (ptab : list (string * prec_rule)) : bool :=
  forallb (fun '(op, n) => match prec_of ptab "BinaryExpr" [("Op"%string, PvStr (bs op))] with Some m => Nat.eqb m n | None => false end) bin_table
  && forallb (fun '(op, n) => match prec_of ptab "UnaryExpr" [("Op"%string, PvStr (bs op))] with Some m => Nat.eqb m n | None => false end)
             [("+", 2); ("-", 2); ("~", 2); ("NOT", 10)]%string%nat
  && forallb (fun '(ty, n) => match prec_of ptab ty [] with Some m => Nat.eqb m n | None => false end)
             [("InExpr", 9); ("IsNullExpr", 9); ("IsBoolExpr", 9); ("BetweenExpr", 9); ("SelectorExpr", 1); ("IndexExpr", 1);
              ("ParenExpr", 0); ("Ident", 0); ("Path", 0); ("IntLiteral", 0); ("FloatLiteral", 0); ("StringLiteral", 0); ("BytesLiteral", 0);
              ("NullLiteral", 0); ("BoolLiteral", 0); ("Param", 0); ("TupleStructLiteral", 0); ("CallExpr", 0); ("CaseExpr", 0)]%string%nat.
Lemma prec_agrees_checked : prec_agrees prec_table = true.
Proof. vm_compute. reflexivity. Qed.

(* ---- C11: the statement-list loop and the entry points are the text the model Parse/ListLoop.v transcribes ---- *)
From Verif Require Import Parse.ListLoop Gen.ListLoop.
Lemma list_loop_checked : Gen.ListLoop.list_loop_bodies = Parse.ListLoop.expected_bodies.
Proof. vm_compute. reflexivity. Qed.
