(* GenChecks.v -- the per-run obligations: boolean checks of the data regenerated from /repo's current source,
   decided by the kernel (vm_compute).  A change to ast.go / pos.go / walk_internal.go changes Gen/*.v and these
   lemmas are re-checked; a failing one stops the build of every property file that depends on it. *)
From Verif Require Import Tree.Tree Tree.PosLang Tree.PosProofs Tree.Walk Tree.Checkers.
From Verif Require Import Gen.Schema Gen.PosSpec Gen.PosImpl Gen.WalkImpl.

Lemma schema_checked : schema_ok schema ifaces = true.
Proof. vm_compute. reflexivity. Qed.

(* C19: for all node types, pos.go's methods are the compilation of the documented expressions, which are well formed *)
Lemma pos_tables_checked : pos_tables_ok schema pos_spec pos_impl = true.
Proof. vm_compute. reflexivity. Qed.

(* C17/C19: one case per node type pushing its node-typed fields in reverse declaration order *)
Lemma walk_table_checked : walk_table_ok schema walk_impl = true.
Proof. vm_compute. reflexivity. Qed.
