(* Tree/PosProofs.v -- the compiled Go expression computes what the documented POS expression means. *)
From Verif Require Import Tree.Tree Tree.PosLang.
Local Open Scope Z_scope.

(* ---------- integers ---------- *)
Lemma compile_i_refines ρ e v : geval_i ρ (compile_i e) = Some v -> eval_i ρ e = Some v.
Proof.
  revert v; induction e as [z|f|c t IHt e IHe]; intros v; cbn [compile_i geval_i eval_i]; auto.
  destruct (assoc c ρ) as [[| b | | | |]|]; try discriminate.
  destruct (geval_i ρ (compile_i t)) as [vt|] eqn:Et; try discriminate.
  destruct (geval_i ρ (compile_i e)) as [ve|] eqn:Ee; try discriminate.
  intros H; inversion H; subst; clear H. destruct b; [apply IHt|apply IHe]; reflexivity.
Qed.

(* ---------- node atoms ---------- *)
Lemma compile_a_refines ρ a v : geval_n ρ (compile_a a) = Some v -> eval_a ρ a = Some v.
Proof.
  destruct a as [f|f i|f]; cbn [compile_a geval_n eval_a]; auto.
  destruct (assoc f ρ) as [[| | | |l|]|]; try discriminate.
  destruct (geval_i ρ (compile_i i)) as [k|] eqn:Ei; try discriminate.
  apply compile_i_refines in Ei. rewrite Ei. destruct l; auto.
Qed.

Lemma first_some_cons {A} (x : option A) r : first_some (x :: r) = match x with Some y => Some y | None => first_some r end.
Proof. destruct x; reflexivity. Qed.

Lemma achoice_refines ρ l vs :
  all_some (map (geval_n ρ) (map compile_a l)) = Some vs -> eval_achoice ρ l = Some (first_some vs).
Proof.
  revert vs; induction l as [|a l IH]; intros vs; cbn [map all_some eval_achoice].
  - intros H; inversion H; reflexivity.
  - destruct (geval_n ρ (compile_a a)) as [v|] eqn:Ea; try discriminate.
    apply compile_a_refines in Ea. rewrite Ea.
    destruct (all_some (map (geval_n ρ) (map compile_a l))) as [vs'|] eqn:El; try discriminate.
    cbn [option_map]. intros H; inversion H; subst; clear H.
    rewrite first_some_cons. destruct v as [x|]; [reflexivity|]. apply IH. reflexivity.
Qed.

Lemma compile_n_refines ρ n v : geval_n ρ (compile_n n) = Some v -> eval_n ρ n = Some v.
Proof.
  destruct n as [a|l]; cbn [compile_n eval_n].
  - apply compile_a_refines.
  - cbn [geval_n].
    (* the nested fix in geval_n over the list is [map] *)
    change ((fix geval_n (ρ0 : env) (n : gnode) {struct n} : option (option (Z * Z)) := _) ρ) with (geval_n ρ).
    destruct (all_some (map (geval_n ρ) (map compile_a l))) as [vs|] eqn:E; try discriminate.
    intros H; inversion H; subst. apply achoice_refines. exact E.
Qed.

(* ---------- position terms ---------- *)
Lemma compile_t_refines ρ t v : geval_p ρ (compile_t t) = Some v -> eval_t ρ t = Some v.
Proof.
  revert v; induction t as [f|n|n|p IH i]; intros v; cbn [compile_t geval_p eval_t]; auto.
  - destruct (geval_n ρ (compile_n n)) as [o|] eqn:E; try discriminate.
    apply compile_n_refines in E. rewrite E. auto.
  - destruct (geval_n ρ (compile_n n)) as [o|] eqn:E; try discriminate.
    apply compile_n_refines in E. rewrite E. auto.
  - destruct (geval_p ρ (compile_t p)) as [vp|] eqn:Ep; try discriminate.
    destruct (geval_i ρ (compile_i i)) as [k|] eqn:Ei; try discriminate.
    rewrite (IH _ eq_refl). apply compile_i_refines in Ei. rewrite Ei.
    intros H; inversion H. destruct (invalid vp); reflexivity.
Qed.

Lemma tchoice_refines ρ l vs :
  all_some (map (geval_p ρ) (map compile_t l)) = Some vs -> eval_tchoice ρ l = Some (first_valid vs).
Proof.
  revert vs; induction l as [|t l IH]; intros vs; cbn [map all_some eval_tchoice].
  - intros H; inversion H; reflexivity.
  - destruct (geval_p ρ (compile_t t)) as [v|] eqn:Et; try discriminate.
    apply compile_t_refines in Et. rewrite Et.
    destruct (all_some (map (geval_p ρ) (map compile_t l))) as [vs'|] eqn:El; try discriminate.
    cbn [option_map]. intros H; inversion H; subst; clear H.
    cbn [first_valid]. destruct (invalid v); [apply IH|]; reflexivity.
Qed.

(* If the compiled method returns (does not panic), it returns the value of the documented expression. *)
Theorem compile_refines ρ e v : geval_body ρ (compile e) = Some v -> eval_p ρ e = Some v.
Proof.
  destruct e as [t|l|]; cbn [compile geval_body eval_p]; try discriminate.
  - apply compile_t_refines.
  - cbn [geval_p].
    change ((fix geval_p (ρ0 : env) (e : gpos) {struct e} : option Z := _) ρ) with (geval_p ρ).
    destruct (all_some (map (geval_p ρ) (map compile_t l))) as [vs|] eqn:E; try discriminate.
    intros H; inversion H; subst. apply tchoice_refines. exact E.
Qed.

(* ---------- totality for well-formed specifications in well-kinded environments ---------- *)
Lemma env_ok_assoc fds ρ f k :
  env_ok fds ρ -> assoc f fds = Some k -> exists v, assoc f ρ = Some v /\ fval_ok k v = true.
Proof.
  revert ρ; induction fds as [|[n k'] fds IH]; intros [|[n' v'] ρ]; cbn [env_ok assoc]; try tauto; try discriminate.
  intros (En & Ok & R) H. subst n'. destruct (String.eqb f n).
  - inversion H; subst. eauto.
  - eauto.
Qed.

Lemma has_elim fds ρ f p :
  env_ok fds ρ -> has fds f p = true -> exists k v, p k = true /\ assoc f ρ = Some v /\ fval_ok k v = true.
Proof.
  unfold has. intros E H. destruct (assoc f fds) as [k|] eqn:A; try discriminate.
  destruct (env_ok_assoc _ _ _ _ E A) as (v & Hv & Ok). eauto.
Qed.

Lemma geval_i_total fds ρ e : env_ok fds ρ -> wf_i fds e = true -> exists v, geval_i ρ (compile_i e) = Some v.
Proof.
  intros E; induction e as [z|f|c t IHt e IHe]; cbn [wf_i compile_i geval_i]; intros W.
  - eauto.
  - destruct (has_elim _ _ _ _ E W) as (k & v & Hk & Hv & Ok). rewrite Hv.
    destruct k; try discriminate; destruct v; try discriminate. eauto.
  - apply andb_true_iff in W as [W We]. apply andb_true_iff in W as [Wc Wt].
    destruct (has_elim _ _ _ _ E Wc) as (k & v & Hk & Hv & Ok). rewrite Hv.
    destruct k; try discriminate; destruct v; try discriminate.
    destruct (IHt Wt) as (vt & ->). destruct (IHe We) as (ve & ->). eauto.
Qed.

Lemma geval_a_total fds ρ a : env_ok fds ρ -> wf_a fds a = true -> exists v, geval_n ρ (compile_a a) = Some v.
Proof.
  intros E. destruct a as [f|f i|f]; cbn [wf_a compile_a geval_n]; intros W.
  - destruct (has_elim _ _ _ _ E W) as (k & v & Hk & Hv & Ok). rewrite Hv.
    destruct k; try discriminate; destruct v; try discriminate. eauto.
  - apply andb_true_iff in W as [Wf Wi].
    destruct (has_elim _ _ _ _ E Wf) as (k & v & Hk & Hv & Ok). rewrite Hv.
    destruct k; try discriminate; destruct v; try discriminate.
    destruct i as [z| |]; try discriminate. destruct z; try discriminate.
    cbn [compile_i geval_i]. destruct l; cbn; eauto.
  - destruct (has_elim _ _ _ _ E W) as (k & v & Hk & Hv & Ok). rewrite Hv.
    destruct k; try discriminate; destruct v; try discriminate. eauto.
Qed.

Lemma all_some_total {A B} (f : A -> option B) l :
  (forall x, In x l -> exists v, f x = Some v) -> exists vs, all_some (map f l) = Some vs.
Proof.
  induction l as [|x l IH]; cbn [map all_some]; intros H; [eauto|].
  destruct (H x (or_introl eq_refl)) as (v & ->).
  destruct IH as (vs & ->); [intros; apply H; right; assumption|]. cbn. eauto.
Qed.

Lemma geval_n_total fds ρ n : env_ok fds ρ -> wf_n fds n = true -> exists v, geval_n ρ (compile_n n) = Some v.
Proof.
  intros E. destruct n as [a|l]; cbn [wf_n compile_n]; intros W.
  - eapply geval_a_total; eauto.
  - cbn [geval_n].
    change ((fix geval_n (ρ0 : env) (n : gnode) {struct n} : option (option (Z * Z)) := _) ρ) with (geval_n ρ).
    destruct (all_some_total (geval_n ρ) (map compile_a l)) as (vs & ->); [|eauto].
    intros x Hx. apply in_map_iff in Hx as (a & <- & Ha).
    eapply geval_a_total; eauto. rewrite forallb_forall in W. auto.
Qed.

Lemma geval_t_total fds ρ t : env_ok fds ρ -> wf_t fds t = true -> exists v, geval_p ρ (compile_t t) = Some v.
Proof.
  intros E; induction t as [f|n|n|p IH i]; cbn [wf_t compile_t geval_p]; intros W.
  - destruct (has_elim _ _ _ _ E W) as (k & v & Hk & Hv & Ok). rewrite Hv.
    destruct k; try discriminate; destruct v; try discriminate. eauto.
  - destruct (geval_n_total _ _ _ E W) as ([[p e]|] & ->); eauto.
  - destruct (geval_n_total _ _ _ E W) as ([[p e]|] & ->); eauto.
  - apply andb_true_iff in W as [Wp Wi]. destruct (IH Wp) as (v & ->).
    destruct (geval_i_total _ _ _ E Wi) as (k & ->). eauto.
Qed.

(* A method compiled from a well-formed specification never panics on a node whose fields have the declared kinds. *)
Theorem compile_total fds ρ e : env_ok fds ρ -> wf_p fds e = true -> exists v, geval_body ρ (compile e) = Some v.
Proof.
  intros E. destruct e as [t|l|]; cbn [wf_p compile geval_body]; intros W; try discriminate.
  - eapply geval_t_total; eauto.
  - cbn [geval_p].
    change ((fix geval_p (ρ0 : env) (e : gpos) {struct e} : option Z := _) ρ) with (geval_p ρ).
    destruct (all_some_total (geval_p ρ) (map compile_t l)) as (vs & ->); [|eauto].
    intros x Hx. apply in_map_iff in Hx as (t & <- & Ht).
    eapply geval_t_total; eauto. rewrite forallb_forall in W. auto.
Qed.

(* ---------- soundness of the boolean equality used by the per-run obligation ---------- *)
Lemma gint_eqb_eq a b : gint_eqb a b = true -> a = b.
Proof.
  revert b; induction a as [x|f|c t IHt e IHe]; intros [y|g|c' t' e']; cbn; try discriminate.
  - intros H; apply Z.eqb_eq in H; congruence.
  - intros H; apply String.eqb_eq in H; congruence.
  - intros H. apply andb_true_iff in H as [H He]. apply andb_true_iff in H as [Hc Ht].
    apply String.eqb_eq in Hc. f_equal; auto.
Qed.

Section GInd.
  Variable P : gnode -> Prop.
  Hypothesis Hw : forall f, P (GWrap f).
  Hypothesis Hi : forall f i, P (GSliceIndex f i).
  Hypothesis Hl : forall f, P (GSliceLast f).
  Hypothesis Hc : forall l, Forall P l -> P (GNodeChoice l).
  Fixpoint gnode_ind' (n : gnode) : P n :=
    match n with
    | GWrap f => Hw f | GSliceIndex f i => Hi f i | GSliceLast f => Hl f
    | GNodeChoice l => Hc l ((fix go l : Forall P l := match l with [] => Forall_nil _ | x :: r => Forall_cons _ (gnode_ind' x) (go r) end) l)
    end.
End GInd.
Section GPInd.
  Variable P : gpos -> Prop.
  Hypothesis Hf : forall f, P (GField f).
  Hypothesis Hp : forall n, P (GNodePos n).
  Hypothesis He : forall n, P (GNodeEnd n).
  Hypothesis Ha : forall p, P p -> forall i, P (GPosAdd p i).
  Hypothesis Hc : forall l, Forall P l -> P (GPosChoice l).
  Fixpoint gpos_ind' (e : gpos) : P e :=
    match e with
    | GField f => Hf f | GNodePos n => Hp n | GNodeEnd n => He n | GPosAdd p i => Ha p (gpos_ind' p) i
    | GPosChoice l => Hc l ((fix go l : Forall P l := match l with [] => Forall_nil _ | x :: r => Forall_cons _ (gpos_ind' x) (go r) end) l)
    end.
End GPInd.

Lemma gnode_eqb_eq a b : gnode_eqb a b = true -> a = b.
Proof.
  revert b. induction a as [f|f i|f|l IH] using gnode_ind'; intros [g|g j|g|m]; cbn; try discriminate.
  - intros H; apply String.eqb_eq in H; congruence.
  - intros H. apply andb_true_iff in H as [Hf Hi]. apply String.eqb_eq in Hf. apply gint_eqb_eq in Hi. congruence.
  - intros H; apply String.eqb_eq in H; congruence.
  - intros H. f_equal. revert m H. induction IH as [|x l Hx Hl IHl]; intros [|y m] H; try discriminate; auto.
    apply andb_true_iff in H as [H1 H2]. f_equal; auto.
Qed.

Lemma gpos_eqb_eq a b : gpos_eqb a b = true -> a = b.
Proof.
  revert b. induction a as [f|n|n|p IHp i|l IH] using gpos_ind'; intros [g|m|m|q j|m]; cbn; try discriminate.
  - intros H; apply String.eqb_eq in H; congruence.
  - intros H; apply gnode_eqb_eq in H; congruence.
  - intros H; apply gnode_eqb_eq in H; congruence.
  - intros H. apply andb_true_iff in H as [H1 H2]. apply gint_eqb_eq in H2. f_equal; auto.
  - intros H. f_equal. revert m H. induction IH as [|x l Hx Hl IHl]; intros [|y m] H; try discriminate; auto.
    apply andb_true_iff in H as [H1 H2]. f_equal; auto.
Qed.

Lemma gbody_eqb_eq a b : gbody_eqb a b = true -> a = b.
Proof. destruct a, b; cbn; try discriminate. intros H; apply gpos_eqb_eq in H; congruence. Qed.

(* ---------- the table-level check and what it implies ---------- *)
Definition pos_tables_ok (sch : schema_t) (spec : list (string * (pexpr * pexpr))) (impl : list (string * (gbody * gbody))) : bool :=
  forallb (fun '(ty, fds) =>
             match assoc ty spec, assoc ty impl with
             | Some (sp, se), Some (ip, ie) =>
                 gbody_eqb (compile sp) ip && gbody_eqb (compile se) ie && wf_p fds sp && wf_p fds se
             | _, _ => false
             end) sch
  && (length spec =? length sch)%nat && (length impl =? length sch)%nat.

Lemma assoc_in {A} k (l : list (string * A)) v : assoc k l = Some v -> In (k, v) l.
Proof.
  induction l as [|[k' v'] l IH]; cbn; try discriminate.
  destruct (String.eqb k k') eqn:E; [apply String.eqb_eq in E; intros H; inversion H; subst; auto|auto].
Qed.

(* For every node type of the schema: the generated Pos()/End() are the compilation of the documented expressions,
   they never panic on a node of that type, and what they return is the value of the documented expression. *)
Theorem pos_tables_sound sch spec impl :
  pos_tables_ok sch spec impl = true ->
  forall ty fds, assoc ty sch = Some fds ->
  exists sp se, assoc ty spec = Some (sp, se) /\ assoc ty impl = Some (compile sp, compile se) /\
    forall ρ, env_ok fds ρ ->
      exists p e, geval_body ρ (compile sp) = Some p /\ eval_p ρ sp = Some p /\
                  geval_body ρ (compile se) = Some e /\ eval_p ρ se = Some e.
Proof.
  unfold pos_tables_ok. intros H ty fds A.
  apply andb_true_iff in H as [H _]. apply andb_true_iff in H as [H _].
  rewrite forallb_forall in H. specialize (H _ (assoc_in _ _ _ A)). cbn in H.
  destruct (assoc ty spec) as [[sp se]|]; try discriminate.
  destruct (assoc ty impl) as [[ip ie]|]; try discriminate.
  apply andb_true_iff in H as [H W2]. apply andb_true_iff in H as [H W1]. apply andb_true_iff in H as [E1 E2].
  apply gbody_eqb_eq in E1, E2. subst ip ie.
  exists sp, se. split; [reflexivity|]. split; [reflexivity|].
  intros ρ Hρ.
  destruct (compile_total _ _ _ Hρ W1) as (p & Hp). destruct (compile_total _ _ _ Hρ W2) as (e & He).
  exists p, e. repeat split; auto using compile_refines.
Qed.
