(* Tree/WalkProofs.v -- walkMain (explicit stack, eager Field/Index calls) computes the recursive pre-order
   traversal, for every tree, every visitor and every global state; consequences for Inspect and Preorder. *)
From Verif Require Import Tree.Tree Tree.Walk.
Local Open Scope nat_scope.

Section Proofs.
  Variables A V St : Type.
  Variable visit : St -> V -> A -> St * option V.
  Variable visit_many : St -> V -> list A -> St * V.
  Variable field : St -> V -> string -> St * V.
  Variable index : St -> V -> nat -> St * V.

  Notation item := (item A V).
  Notation expand := (expand A V St visit visit_many field index).
  Notation walk_main := (walk_main A V St visit visit_many field index).
  Notation spec_node := (spec_node A V St visit visit_many field index).
  Notation spec_item := (spec_item A V St visit visit_many field index).
  Notation spec_stack := (spec_stack A V St visit visit_many field index).
  Notation spec_each := (spec_each A V St spec_node).
  Notation spec_kids := (spec_kids A V St visit_many index spec_node).
  Notation spec_many := (spec_many A V St visit_many index spec_node).
  Notation zip_items := (zip_items A V).
  Notation zip_nodes := (zip_nodes A V).
  Notation item_weight := (item_weight A V).
  Notation stack_weight := (stack_weight A V).

  Lemma spec_stack_app s a b : spec_stack s (a ++ b) = spec_stack (spec_stack s a) b.
  Proof. revert s; induction a as [|it a IH]; intros s; cbn; auto. Qed.

  Lemma zip_nodes_spec l ivs s : spec_stack s (zip_nodes l ivs) = spec_each l ivs s.
  Proof.
    revert ivs s; induction l as [|x l IH]; intros [|vi ivs] s; cbn; auto.
  Qed.

  Lemma zip_items_spec kids vs s : spec_stack s (zip_items kids vs) = spec_kids kids vs s.
  Proof.
    revert vs s; induction kids as [|[[nm many] l] kids IH]; intros [|vk vs] s; cbn [zip_items spec_stack Walk.spec_kids]; auto.
    rewrite IH. f_equal. unfold kid_item. destruct many; cbn [Walk.spec_item]; [reflexivity|].
    destruct l; reflexivity.
  Qed.

  (* one loop iteration = the specification of the popped item, with the pushed items still to be processed *)
  Lemma expand_spec it s : spec_stack (fst (expand it s)) (snd (expand it s)) = spec_item it s.
  Proof.
    destruct it as [[[a kids]|] v|l v]; cbn [Walk.expand Walk.spec_item].
    - cbn [Walk.spec_node]. destruct (visit s v a) as [s1 [v1|]]; cbn [fst snd]; [|reflexivity].
      match goal with |- context [let '(_, _) := ?X in _] => destruct X as [s2 vs] end. cbn [fst snd]. apply zip_items_spec.
    - reflexivity.
    - unfold Walk.spec_many. destruct (visit_many s v _) as [s1 v1]. match goal with |- context [let '(_, _) := ?X in _] => destruct X as [s2 ivs] end.
      cbn [fst snd]. apply zip_nodes_spec.
  Qed.

  (* ---------- weights: the fuel bound ---------- *)
  Definition each_size (l : list (rose A)) : nat := fold_right (fun x a => rsize x + a) 0 l.
  Fixpoint kids_size (kids : list (string * bool * list (rose A))) : nat :=
    match kids with [] => 0 | (_, _, l) :: r => S (each_size l) + kids_size r end.

  Lemma rsize_unfold a kids : rsize (R a kids) = S (kids_size kids).
  Proof. reflexivity. Qed.

  Lemma rsize_pos (n : rose A) : 1 <= rsize n.
  Proof. destruct n. rewrite rsize_unfold. lia. Qed.

  Lemma item_weight_pos it : 1 <= item_weight it.
  Proof. destruct it as [[n|] v|l v]; cbn; try lia. apply rsize_pos. Qed.

  Lemma zip_nodes_weight l ivs : stack_weight (zip_nodes l ivs) <= each_size l.
  Proof.
    revert ivs; induction l as [|x l IH]; intros [|vi ivs]; cbn [Walk.zip_nodes Walk.stack_weight fold_right each_size Walk.item_weight]; try lia.
    specialize (IH ivs). unfold Walk.stack_weight in IH. unfold each_size in IH. lia.
  Qed.

  Lemma zip_items_weight kids vs : stack_weight (zip_items kids vs) <= kids_size kids.
  Proof.
    revert vs; induction kids as [|[[nm many] l] kids IH]; intros [|vk vs]; cbn [Walk.zip_items Walk.stack_weight fold_right kids_size]; try lia.
    specialize (IH vs). unfold Walk.stack_weight in IH.
    assert (item_weight (kid_item A V (nm, many, l) vk) <= S (each_size l)).
    { unfold kid_item. destruct many; cbn [Walk.item_weight]; [unfold each_size; lia|].
      destruct l as [|x l]; cbn [hd_error each_size fold_right]; lia. }
    lia.
  Qed.

  Lemma expand_weight it s : S (stack_weight (snd (expand it s))) <= item_weight it.
  Proof.
    destruct it as [[[a kids]|] v|l v]; cbn [Walk.expand].
    - cbn [Walk.item_weight]. rewrite rsize_unfold.
      destruct (visit s v a) as [s1 [v1|]]; cbn [snd]; [|cbn; lia].
      match goal with |- context [let '(_, _) := ?X in _] => destruct X as [s2 vs] end. cbn [snd].
      pose proof (zip_items_weight kids (rev vs)). lia.
    - cbn. lia.
    - destruct (visit_many s v _) as [s1 v1]. match goal with |- context [let '(_, _) := ?X in _] => destruct X as [s2 ivs] end. cbn [snd Walk.item_weight].
      pose proof (zip_nodes_weight l ivs). unfold each_size in *. lia.
  Qed.

  Lemma stack_weight_app a b : stack_weight (a ++ b) = stack_weight a + stack_weight b.
  Proof.
    induction a as [|x a IH]; [reflexivity|].
    cbn [app Walk.stack_weight fold_right]. fold (stack_weight (a ++ b)). fold (stack_weight a). rewrite IH. lia.
  Qed.

  (* walkMain terminates within (total weight of the stack) iterations and computes the specification *)
  Theorem walk_main_correct fuel st s : stack_weight st <= fuel -> walk_main fuel s st = Some (spec_stack s st).
  Proof.
    revert st s; induction fuel as [|f IH]; intros [|it st] s H; cbn [Walk.walk_main Walk.spec_stack]; auto.
    - pose proof (item_weight_pos it). cbn [Walk.stack_weight fold_right] in H. lia.
    - pose proof (expand_spec it s) as E. pose proof (expand_weight it s) as W.
      destruct (expand it s) as [s1 pushed]. cbn [fst snd] in E, W.
      rewrite IH.
      + rewrite spec_stack_app, E. reflexivity.
      + rewrite stack_weight_app. cbn [Walk.stack_weight fold_right] in H. fold (stack_weight st) in H. lia.
  Qed.

  (* Walk(root, v) = the recursive pre-order traversal; it terminates (fuel = size of the tree suffices) *)
  Theorem walk_correct root v s :
    walk A V St visit visit_many field index root v s = Some (spec_node root v s).
  Proof.
    unfold walk. rewrite walk_main_correct; [reflexivity|]. cbn. lia.
  Qed.

  Theorem walk_many_correct roots v s :
    walk_many A V St visit visit_many field index roots v s = Some (spec_many roots v s).
  Proof.
    unfold walk_many. rewrite walk_main_correct; [reflexivity|]. cbn [Walk.stack_weight fold_right]. lia.
  Qed.
End Proofs.

(* ---------- consequences for the property: which nodes, in which order, with which paths ---------- *)
Section RoseInd.
  Variable A : Type.
  Variable P : rose A -> Prop.
  Hypothesis H : forall a kids, Forall (fun k => Forall P (snd k)) kids -> P (R a kids).
  Fixpoint rose_ind' (n : rose A) : P n :=
    match n with
    | R a kids =>
        H a kids ((fix go (kids : list (string * bool * list (rose A))) : Forall (fun k => Forall P (snd k)) kids :=
                     match kids with
                     | [] => Forall_nil _
                     | k :: r =>
                         Forall_cons k
                           ((fix go2 (l : list (rose A)) : Forall P l :=
                               match l with [] => Forall_nil _ | x :: l' => Forall_cons x (rose_ind' x) (go2 l') end) (snd k))
                           (go r)
                     end) kids)
    end.
End RoseInd.

Inductive step := SField (name : string) | SIndex (i : nat).
Definition path := list step.

Section Recorder.
  Variable A : Type.
  Variable keep : path -> A -> bool.        (* the visitor's decision: descend (true) or return nil (false) *)

  (* a visitor that remembers the path it was handed and records every Visit call *)
  Definition rec_visit (s : list (path * A)) (p : path) (a : A) := (s ++ [(p, a)], if keep p a then Some p else None).
  Definition rec_many (s : list (path * A)) (p : path) (_ : list A) := (s, p).
  Definition rec_field (s : list (path * A)) (p : path) (n : string) := (s, p ++ [SField n]).
  Definition rec_index (s : list (path * A)) (p : path) (i : nat) := (s, p ++ [SIndex i]).

  (* the reference: pruned pre-order with the REAL path (struct fields and slice indices from the root) *)
  Section Pre.
    Variable pre : rose A -> path -> list (path * A).
    Fixpoint pre_each (l : list (rose A)) (p : path) (i : nat) : list (path * A) :=
      match l with [] => [] | x :: l' => pre x (p ++ [SIndex i]) ++ pre_each l' p (S i) end.
    Fixpoint pre_kids (kids : list (string * bool * list (rose A))) (p : path) : list (path * A) :=
      match kids with
      | [] => []
      | (nm, many, l) :: r =>
          (if many then pre_each l (p ++ [SField nm]) 0
           else match l with x :: _ => pre x (p ++ [SField nm]) | [] => [] end) ++ pre_kids r p
      end.
  End Pre.
  Fixpoint pre (n : rose A) (p : path) : list (path * A) :=
    match n with R a kids => (p, a) :: (if keep p a then pre_kids pre kids p else []) end.

  Notation rspec := (spec_node A path (list (path * A)) rec_visit rec_many rec_field rec_index).

  Lemma rec_field_calls s p names :
    field_calls path (list (path * A)) rec_field s p names = (s, map (fun n => p ++ [SField n]) names).
  Proof. induction names as [|n r IH]; cbn; [reflexivity|]. rewrite IH. reflexivity. Qed.

  Lemma rec_index_calls s p n :
    index_calls path (list (path * A)) rec_index s p n = (s, map (fun i => p ++ [SIndex i]) (seq 0 n)).
  Proof.
    induction n as [|k IH]; cbn [index_calls]; [reflexivity|]. cbn [rec_index]. rewrite IH.
    rewrite seq_S, map_app. reflexivity.
  Qed.

  Lemma spec_each_rec l : Forall (fun x => forall p s, rspec x p s = s ++ pre x p) l ->
    forall p i s, spec_each A path (list (path * A)) rspec l (map (fun j => p ++ [SIndex j]) (seq i (length l))) s
                  = s ++ pre_each pre l p i.
  Proof.
    induction 1 as [|x l Hx Hl IH]; intros p i s; cbn [length seq map spec_each pre_each]; [rewrite app_nil_r; reflexivity|].
    rewrite Hx, IH, app_assoc. reflexivity.
  Qed.

  Lemma spec_kids_rec kids : Forall (fun k => Forall (fun x => forall p s, rspec x p s = s ++ pre x p) (snd k)) kids ->
    forall p s, spec_kids A path (list (path * A)) rec_many rec_index rspec kids (map (fun k => p ++ [SField (fst (fst k))]) kids) s
                = s ++ pre_kids pre kids p.
  Proof.
    induction 1 as [|[[nm many] l] kids Hk Hks IH]; intros p s; cbn [map spec_kids pre_kids fst snd]; [rewrite app_nil_r; reflexivity|].
    rewrite IH. cbn [snd] in Hk. rewrite app_assoc. f_equal.
    destruct many.
    - unfold spec_many. cbn [rec_many]. rewrite rec_index_calls. apply spec_each_rec. exact Hk.
    - destruct l as [|x l]; [rewrite app_nil_r; reflexivity|]. inversion Hk; subst. auto.
  Qed.

  (* Every node reachable through node-typed fields whose ancestors were all kept is visited exactly once, parents
     before children, siblings in field-declaration order, slice elements in index order; the visitor that reaches
     a node has been handed exactly the Field/Index steps of the real path; a pruned node's subtree is skipped
     and nothing else is. *)
  Theorem recorder_spec n : forall p s, rspec n p s = s ++ pre n p.
  Proof.
    induction n as [a kids IH] using rose_ind'. intros p s. cbn [spec_node pre rec_visit].
    destruct (keep p a); [|reflexivity].
    rewrite rec_field_calls, <- map_rev, rev_involutive, map_map.
    rewrite (spec_kids_rec kids IH p). rewrite <- app_assoc. reflexivity.
  Qed.

  Theorem walk_visits_preorder root :
    walk A path (list (path * A)) rec_visit rec_many rec_field rec_index root [] [] = Some (pre root []).
  Proof. rewrite walk_correct, recorder_spec. reflexivity. Qed.
End Recorder.

(* ---------- Inspect and Preorder ---------- *)
Section InspectProofs.
  Variables A St : Type.
  Variable f : St -> A -> St * bool.

  Theorem inspect_correct root s : inspect A St f root s = Some (inspect_spec A St f root s).
  Proof. apply walk_correct. Qed.
End InspectProofs.

Section PreorderProofs.
  Variables A C : Type.
  Variable yield : C -> A -> C * bool.

  (* once the consumer has returned false, no callback changes the consumer state any more: nothing is yielded *)
  Lemma pre_f_stopped c a : pre_f A C yield (false, c) a = ((false, c), false).
  Proof. reflexivity. Qed.

  Notation pspec := (spec_node A unit (bool * C) (insp_visit A (bool * C) (pre_f A C yield)) (insp_many A (bool * C))
                       (insp_field (bool * C)) (insp_index (bool * C))).

  Lemma insp_index_calls (s : bool * C) n :
    fst (index_calls unit (bool * C) (insp_index (bool * C)) s tt n) = s.
  Proof.
    induction n as [|k IH]; cbn [index_calls]; [reflexivity|]. cbn [insp_index].
    destruct (index_calls unit (bool * C) (insp_index (bool * C)) s tt k) as [s2 vs]. exact IH.
  Qed.

  Theorem preorder_stopped_stays n : forall c v, pspec n v (false, c) = (false, c).
  Proof.
    induction n as [a kids IH] using rose_ind'. intros c []. cbn [spec_node insp_visit]. reflexivity.
  Qed.

  Lemma stopped_each c l : forall ivs, spec_each A unit (bool * C) pspec l ivs (false, c) = (false, c).
  Proof. induction l as [|x l IH]; intros [|[] ivs]; cbn [spec_each]; auto. rewrite preorder_stopped_stays. apply IH. Qed.

  (* after the consumer stopped, whatever is still on the stack is popped without yielding anything *)
  Theorem preorder_stopped_stack c st :
    spec_stack A unit (bool * C) (insp_visit A (bool * C) (pre_f A C yield)) (insp_many A (bool * C))
      (insp_field (bool * C)) (insp_index (bool * C)) (false, c) st = (false, c).
  Proof.
    induction st as [|it st IH]; cbn [spec_stack]; [reflexivity|].
    replace (spec_item _ _ _ _ _ _ _ it (false, c)) with ((false, c) : bool * C); [exact IH|].
    destruct it as [[n|] []|l []]; cbn [spec_item]; [rewrite preorder_stopped_stays; reflexivity|reflexivity|].
    unfold spec_many. cbn [insp_many].
    pose proof (insp_index_calls (false, c) (length l)) as E.
    destruct (index_calls unit (bool * C) (insp_index (bool * C)) (false, c) tt (length l)) as [s2 ivs].
    cbn [fst] in E. subst s2. rewrite stopped_each. reflexivity.
  Qed.

  Theorem preorder_total root c : exists c', preorder A C yield root c = Some c'.
  Proof. unfold preorder. rewrite inspect_correct. cbn. eauto. Qed.
End PreorderProofs.
