(* Tree/PosLang.v -- the POS expression language of ast/ast.go's doc comments (specification side) and the Go
   expressions that occur in the generated ast/pos.go (implementation side), both with executable semantics.

   Specification semantics = the published meaning of the language (package comment of ast/ast.go; the same as
   tools/util/poslang's interpreter: choice picks the first valid alternative, lazily).
   Implementation semantics = ast/pos_util.go: nodePos/nodeEnd/posChoice/posAdd/nodeChoice/nodeSliceIndex/
   nodeSliceLast/ifThenElse/wrapNode with Go's EAGER argument evaluation and checked slice indexing.

   Both are evaluated in an environment that gives, per field name of the receiver, the already computed facts
   about that field (position value, boolean, string length, (Pos, End) of a child node, (Pos, End) of every
   element of a child slice).  Tree recursion lives in [annot] below, so expression evaluation is first-order. *)
From Verif Require Import Tree.Tree.
Local Open Scope string_scope.
Local Open Scope Z_scope.

(* ---------- syntax: specification ---------- *)
Inductive iexpr := ILit (z : Z) | ILen (f : string) | IIte (c : string) (t e : iexpr).
Inductive natom := AVar (f : string) | AIndex (f : string) (i : iexpr) | ALast (f : string).
Inductive nexpr := NAtom (a : natom) | NChoice (l : list natom).
Inductive pterm := PVar (f : string) | PNodePos (n : nexpr) | PNodeEnd (n : nexpr) | PAdd (p : pterm) (i : iexpr).
Inductive pexpr := POne (p : pterm) | PChoice (l : list pterm) | PMissing.

(* ---------- syntax: Go expressions of pos.go ---------- *)
Inductive gint := GLit (z : Z) | GLen (f : string) | GIte (c : string) (t e : gint).
Inductive gnode := GWrap (f : string) | GSliceIndex (f : string) (i : gint) | GSliceLast (f : string)
                 | GNodeChoice (l : list gnode).
Inductive gpos := GField (f : string) | GNodePos (n : gnode) | GNodeEnd (n : gnode) | GPosAdd (p : gpos) (i : gint)
                | GPosChoice (l : list gpos).
Inductive gbody := GRet (e : gpos) | GOpaque | GMissing.

(* ---------- environments ---------- *)
Inductive fval :=
| FvPos (p : Z) | FvBool (b : bool) | FvLen (n : Z)
| FvNode (o : option (Z * Z))          (* nil, or (Pos(), End()) of the child *)
| FvNodes (l : list (Z * Z))           (* (Pos(), End()) of every element *)
| FvOther.
Definition env := list (string * fval).

Definition invalid (p : Z) : bool := p <? 0.        (* token.Pos.Invalid *)
Definition InvalidPos : Z := -1.

(* evaluation results: None = the evaluation panics (ill-typed access or index out of range) *)

(* ---------- specification semantics ---------- *)
Fixpoint eval_i (ρ : env) (e : iexpr) : option Z :=
  match e with
  | ILit z => Some z
  | ILen f => match assoc f ρ with Some (FvLen n) => Some n | _ => None end
  | IIte c t e => match assoc c ρ with
                  | Some (FvBool b) => if b then eval_i ρ t else eval_i ρ e
                  | _ => None
                  end
  end.

Definition nth_z {A} (l : list A) (i : Z) : option A :=
  if i <? 0 then None else nth_error l (Z.to_nat i).

Definition eval_a (ρ : env) (a : natom) : option (option (Z * Z)) :=
  match a with
  | AVar f => match assoc f ρ with Some (FvNode o) => Some o | _ => None end
  | AIndex f i =>
      match assoc f ρ with
      | Some (FvNodes l) =>
          match l with
          | [] => Some None
          | _ => match eval_i ρ i with
                 | Some k => match nth_z l k with Some x => Some (Some x) | None => None end
                 | None => None
                 end
          end
      | _ => None
      end
  | ALast f => match assoc f ρ with
               | Some (FvNodes l) => Some (match l with [] => None | _ => Some (last l (0, 0)) end)
               | _ => None
               end
  end.

(* lazy first-non-nil *)
Fixpoint eval_achoice (ρ : env) (l : list natom) : option (option (Z * Z)) :=
  match l with
  | [] => Some None
  | a :: r => match eval_a ρ a with
              | Some (Some x) => Some (Some x)
              | Some None => eval_achoice ρ r
              | None => None
              end
  end.

Definition eval_n (ρ : env) (n : nexpr) : option (option (Z * Z)) :=
  match n with NAtom a => eval_a ρ a | NChoice l => eval_achoice ρ l end.

Fixpoint eval_t (ρ : env) (t : pterm) : option Z :=
  match t with
  | PVar f => match assoc f ρ with Some (FvPos p) => Some p | _ => None end
  | PNodePos n => match eval_n ρ n with
                  | Some (Some (p, _)) => Some p | Some None => Some InvalidPos | None => None end
  | PNodeEnd n => match eval_n ρ n with
                  | Some (Some (_, e)) => Some e | Some None => Some InvalidPos | None => None end
  | PAdd p i => match eval_t ρ p with
                | Some v => if invalid v then Some InvalidPos
                            else match eval_i ρ i with Some k => Some (v + k) | None => None end
                | None => None
                end
  end.

(* lazy first-valid *)
Fixpoint eval_tchoice (ρ : env) (l : list pterm) : option Z :=
  match l with
  | [] => Some InvalidPos
  | t :: r => match eval_t ρ t with
              | Some v => if invalid v then eval_tchoice ρ r else Some v
              | None => None
              end
  end.

Definition eval_p (ρ : env) (e : pexpr) : option Z :=
  match e with POne t => eval_t ρ t | PChoice l => eval_tchoice ρ l | PMissing => None end.

(* ---------- implementation semantics (pos_util.go, eager arguments) ---------- *)
Fixpoint geval_i (ρ : env) (e : gint) : option Z :=
  match e with
  | GLit z => Some z
  | GLen f => match assoc f ρ with Some (FvLen n) => Some n | _ => None end
  | GIte c t e =>       (* ifThenElse(c, t, e): all three arguments are evaluated *)
      match assoc c ρ, geval_i ρ t, geval_i ρ e with
      | Some (FvBool b), Some vt, Some ve => Some (if b then vt else ve)
      | _, _, _ => None
      end
  end.

Fixpoint first_some {A} (l : list (option A)) : option A :=
  match l with [] => None | Some x :: _ => Some x | None :: r => first_some r end.

Fixpoint all_some {A} (l : list (option A)) : option (list A) :=
  match l with
  | [] => Some []
  | Some x :: r => option_map (cons x) (all_some r)
  | None :: _ => None
  end.

Fixpoint geval_n (ρ : env) (n : gnode) : option (option (Z * Z)) :=
  match n with
  | GWrap f => match assoc f ρ with Some (FvNode o) => Some o | _ => None end
  | GSliceIndex f i =>
      match assoc f ρ, geval_i ρ i with       (* arguments first, then the len(ns)==0 test, then ns[i] *)
      | Some (FvNodes l), Some k =>
          match l with
          | [] => Some None
          | _ => match nth_z l k with Some x => Some (Some x) | None => None end
          end
      | _, _ => None
      end
  | GSliceLast f => match assoc f ρ with
                    | Some (FvNodes l) => Some (match l with [] => None | _ => Some (last l (0, 0)) end)
                    | _ => None
                    end
  | GNodeChoice l =>
      match all_some (map (geval_n ρ) l) with
      | Some vs => Some (first_some vs)
      | None => None
      end
  end.

Fixpoint first_valid (l : list Z) : Z :=
  match l with [] => InvalidPos | p :: r => if invalid p then first_valid r else p end.

Fixpoint geval_p (ρ : env) (e : gpos) : option Z :=
  match e with
  | GField f => match assoc f ρ with Some (FvPos p) => Some p | _ => None end
  | GNodePos n => match geval_n ρ n with
                  | Some (Some (p, _)) => Some p | Some None => Some InvalidPos | None => None end
  | GNodeEnd n => match geval_n ρ n with
                  | Some (Some (_, e)) => Some e | Some None => Some InvalidPos | None => None end
  | GPosAdd p i =>
      match geval_p ρ p, geval_i ρ i with
      | Some v, Some k => Some (if invalid v then InvalidPos else v + k)
      | _, _ => None
      end
  | GPosChoice l =>
      match all_some (map (geval_p ρ) l) with
      | Some vs => Some (first_valid vs)
      | None => None
      end
  end.

Definition geval_body (ρ : env) (b : gbody) : option Z :=
  match b with GRet e => geval_p ρ e | _ => None end.

(* ---------- our twin of PosExprToGo ---------- *)
Fixpoint compile_i (e : iexpr) : gint :=
  match e with ILit z => GLit z | ILen f => GLen f | IIte c t e => GIte c (compile_i t) (compile_i e) end.
Definition compile_a (a : natom) : gnode :=
  match a with AVar f => GWrap f | AIndex f i => GSliceIndex f (compile_i i) | ALast f => GSliceLast f end.
Definition compile_n (n : nexpr) : gnode :=
  match n with NAtom a => compile_a a | NChoice l => GNodeChoice (map compile_a l) end.
Fixpoint compile_t (t : pterm) : gpos :=
  match t with
  | PVar f => GField f
  | PNodePos n => GNodePos (compile_n n)
  | PNodeEnd n => GNodeEnd (compile_n n)
  | PAdd p i => GPosAdd (compile_t p) (compile_i i)
  end.
Definition compile (e : pexpr) : gbody :=
  match e with
  | POne t => GRet (compile_t t)
  | PChoice l => GRet (GPosChoice (map compile_t l))
  | PMissing => GMissing
  end.

(* ---------- decidable equality of implementation expressions (for the per-run obligation) ---------- *)
Fixpoint gint_eqb (a b : gint) : bool :=
  match a, b with
  | GLit x, GLit y => Z.eqb x y
  | GLen f, GLen g => String.eqb f g
  | GIte c t e, GIte c' t' e' => String.eqb c c' && gint_eqb t t' && gint_eqb e e'
  | _, _ => false
  end.

Fixpoint gnode_eqb (a b : gnode) : bool :=
  match a, b with
  | GWrap f, GWrap g => String.eqb f g
  | GSliceIndex f i, GSliceIndex g j => String.eqb f g && gint_eqb i j
  | GSliceLast f, GSliceLast g => String.eqb f g
  | GNodeChoice l, GNodeChoice m =>
      (fix go (l m : list gnode) : bool :=
         match l, m with
         | [], [] => true
         | x :: l', y :: m' => gnode_eqb x y && go l' m'
         | _, _ => false
         end) l m
  | _, _ => false
  end.

Fixpoint gpos_eqb (a b : gpos) : bool :=
  match a, b with
  | GField f, GField g => String.eqb f g
  | GNodePos n, GNodePos m => gnode_eqb n m
  | GNodeEnd n, GNodeEnd m => gnode_eqb n m
  | GPosAdd p i, GPosAdd q j => gpos_eqb p q && gint_eqb i j
  | GPosChoice l, GPosChoice m =>
      (fix go (l m : list gpos) : bool :=
         match l, m with
         | [], [] => true
         | x :: l', y :: m' => gpos_eqb x y && go l' m'
         | _, _ => false
         end) l m
  | _, _ => false
  end.

Definition gbody_eqb (a b : gbody) : bool :=
  match a, b with GRet x, GRet y => gpos_eqb x y | _, _ => false end.   (* GOpaque / GMissing equal nothing *)

(* ---------- static well-formedness of a specification against the struct's fields ---------- *)
Definition kind_pos (k : fkind) := match k with KPos => true | _ => false end.
Definition kind_bool (k : fkind) := match k with KBool => true | _ => false end.
Definition kind_str (k : fkind) := match k with KStr => true | _ => false end.
Definition kind_node (k : fkind) := match k with KNode _ _ => true | _ => false end.
Definition kind_nodes (k : fkind) := match k with KNodes _ _ => true | _ => false end.

Section Static.
  Variable fds : list (string * fkind).
  Definition has (f : string) (p : fkind -> bool) : bool :=
    match assoc f fds with Some k => p k | None => false end.

  Fixpoint wf_i (e : iexpr) : bool :=
    match e with
    | ILit z => 0 <=? z
    | ILen f => has f kind_str
    | IIte c t e => has c kind_bool && wf_i t && wf_i e
    end.
  (* an index is safe when it is the literal 0 (guarded by the len==0 test) *)
  Definition wf_a (a : natom) : bool :=
    match a with
    | AVar f => has f kind_node
    | AIndex f i => has f kind_nodes && match i with ILit 0 => true | _ => false end
    | ALast f => has f kind_nodes
    end.
  Definition wf_n (n : nexpr) : bool :=
    match n with NAtom a => wf_a a | NChoice l => forallb wf_a l end.
  Fixpoint wf_t (t : pterm) : bool :=
    match t with
    | PVar f => has f kind_pos
    | PNodePos n | PNodeEnd n => wf_n n
    | PAdd p i => wf_t p && wf_i i
    end.
  Definition wf_p (e : pexpr) : bool :=
    match e with POne t => wf_t t | PChoice l => forallb wf_t l | PMissing => false end.
End Static.

(* an environment gives every field a value of the kind the struct declares *)
Definition fval_ok (k : fkind) (v : fval) : bool :=
  match k, v with
  | KPos, FvPos _ | KBool, FvBool _ | KStr, FvLen _ | KNode _ _, FvNode _ | KNodes _ _, FvNodes _ => true
  | KInt, FvOther | KToks, FvOther | KOther _, FvOther => true
  | _, _ => false
  end.

Fixpoint env_ok (fds : list (string * fkind)) (ρ : env) : Prop :=
  match fds, ρ with
  | [], [] => True
  | (n, k) :: fds', (n', v) :: ρ' => n = n' /\ fval_ok k v = true /\ env_ok fds' ρ'
  | _, _ => False
  end.

(* ---------- positions of a whole tree: Pos()/End() of every node, bottom-up ---------- *)

(* facts about one field, given how to compute (Pos, End) of a child *)
Definition fval_of (rec : tree -> option (Z * Z)) (k : fkind) (f : tree) : fval :=
  match k, f with
  | KPos, TPos p => FvPos p
  | KBool, TBool b => FvBool b
  | KStr, TStr s => FvLen (Z.of_nat (length s))
  | KNode _ _, TNil => FvNode None
  | KNode _ _, TNode _ _ => match rec f with Some x => FvNode (Some x) | None => FvOther end
  | KNodes _ _, TList l => match all_some (map rec l) with Some xs => FvNodes xs | None => FvOther end
  | _, _ => FvOther
  end.

Section MkEnv.   (* [rec] is bound outside the fixpoint so that the guard checker can unfold through it *)
  Variable rec : tree -> option (Z * Z).
  Fixpoint mk_env (fds : list (string * fkind)) (fs : list tree) {struct fs} : env :=
    match fs, fds with
    | f :: fs', (n, k) :: fds' => (n, fval_of rec k f) :: mk_env fds' fs'
    | _, _ => []
    end.
End MkEnv.

Section Annot.
  Variable X : Type.                                 (* expression type: pexpr (specification) or gbody (pos.go) *)
  Variable ev : env -> X -> option Z.
  Variable sch : schema_t.
  Variable tbl : list (string * (X * X)).

  (* (Pos(), End()) of a node; None when an evaluation panics or the node type is not in the tables *)
  Fixpoint pe (t : tree) : option (Z * Z) :=
    match t with
    | TNode ty fs =>
        match assoc ty sch, assoc ty tbl with
        | Some fds, Some (bp, be) =>
            let ρ := mk_env pe fds fs in
            match ev ρ bp, ev ρ be with
            | Some p, Some e => Some (p, e)
            | _, _ => None
            end
        | _, _ => None
        end
    | _ => None
    end.
End Annot.

Definition pe_impl := pe gbody geval_body.      (* what the generated methods compute *)
Definition pe_spec := pe pexpr eval_p.          (* what the documentation specifies *)
