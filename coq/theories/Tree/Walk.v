(* Tree/Walk.v -- model of ast/walk.go: Walk / WalkMany / walkMain with its explicit stack, the inspector adapter,
   Preorder.  Hand transcription (tie: correspondence of callback traces on dumped trees, every run).

   What walkInternal pushes for a node is abstracted into the node's list of [kids] (node-typed fields in
   declaration order, each a single optional node or a slice); that the generated switch pushes exactly those,
   in reverse order, is the per-run obligation on Gen/WalkImpl.v (see GenChecks.v).

   Visitors are arbitrary: a visitor value of any type [V], callbacks that may read and update a global state
   [St] (this covers visitors with side effects, e.g. recorders, and the closure state of Preorder).
   Assumption recorded in the trusted base: VisitMany, Field and Index return non-nil visitors (a nil there makes
   the Go code call a method on a nil interface). *)
From Verif Require Import Tree.Tree.
Local Open Scope string_scope.

Section Rose.
  Variable A : Type.    (* what identifies a node to the visitor (the ast.Node value) *)

  (* a node with its node-typed fields: (field name, is a slice, the non-nil nodes in it) *)
  Inductive rose := R (a : A) (kids : list (string * bool * list rose)).

  Definition label (n : rose) : A := match n with R a _ => a end.
  Definition kids_of (n : rose) := match n with R _ k => k end.

  Fixpoint rsize (n : rose) : nat :=
    match n with
    | R _ kids =>
        S ((fix ks (kids : list (string * bool * list rose)) : nat :=
              match kids with
              | [] => 0
              | (_, _, l) :: r =>
                  S ((fix each (l : list rose) : nat := match l with [] => 0 | x :: l' => rsize x + each l' end) l) + ks r
              end) kids)
    end.

  Section Visitor.
    Variables V St : Type.
    Variable visit : St -> V -> A -> St * option V.              (* Visit: None = nil, prune *)
    Variable visit_many : St -> V -> list A -> St * V.
    Variable field : St -> V -> string -> St * V.
    Variable index : St -> V -> nat -> St * V.

    Inductive item := INode (o : option rose) (v : V) | INodes (l : list rose) (v : V).

    (* v.Field(name) for each name of the list, in list order; visitors returned in the same order *)
    Fixpoint field_calls (s : St) (v : V) (names : list string) : St * list V :=
      match names with
      | [] => (s, [])
      | n :: r => let '(s1, vn) := field s v n in let '(s2, vs) := field_calls s1 v r in (s2, vn :: vs)
      end.

    (* v.Index(i) for i = n-1 downto 0 (that order); result aligned with indices 0..n-1 *)
    Fixpoint index_calls (s : St) (v : V) (n : nat) : St * list V :=
      match n with
      | O => (s, [])
      | Datatypes.S k => let '(s1, vk) := index s v k in let '(s2, vs) := index_calls s1 v k in (s2, (vs ++ [vk])%list)
      end.

    Definition kid_item (k : string * bool * list rose) (v : V) : item :=
      let '(_, many, l) := k in if many then INodes l v else INode (hd_error l) v.

    Fixpoint zip_items (kids : list (string * bool * list rose)) (vs : list V) : list item :=
      match kids, vs with
      | k :: kids', v :: vs' => kid_item k v :: zip_items kids' vs'
      | _, _ => []
      end.

    Fixpoint zip_nodes (l : list rose) (vs : list V) : list item :=
      match l, vs with
      | x :: l', v :: vs' => INode (Some x) v :: zip_nodes l' vs'
      | _, _ => []
      end.

    (* one iteration of walkMain's loop on the popped item: new state, items pushed (top of stack first) *)
    Definition expand (it : item) (s : St) : St * list item :=
      match it with
      | INode None _ => (s, [])
      | INodes l v =>
          let '(s1, v1) := visit_many s v (map label l) in
          let '(s2, ivs) := index_calls s1 v1 (length l) in
          (s2, zip_nodes l ivs)
      | INode (Some (R a kids)) v =>
          let '(s1, r) := visit s v a in
          match r with
          | None => (s1, [])
          | Some v1 =>
              (* walkInternal: appends in reverse declaration order, calling v.Field eagerly *)
              let '(s2, vs) := field_calls s1 v1 (rev (map (fun k => fst (fst k)) kids)) in
              (s2, zip_items kids (rev vs))
          end
      end.

    (* walkMain; the stack is a list with its top at the head; None = out of fuel *)
    Fixpoint walk_main (fuel : nat) (s : St) (stack : list item) : option St :=
      match stack with
      | [] => Some s
      | it :: st =>
          match fuel with
          | O => None
          | Datatypes.S f => let '(s1, pushed) := expand it s in walk_main f s1 (pushed ++ st)%list
          end
      end.

    Definition item_weight (it : item) : nat :=
      match it with
      | INode None _ => 1
      | INode (Some n) _ => rsize n
      | INodes l _ => S (fold_right (fun x a => rsize x + a) 0 l)
      end.
    Definition stack_weight (st : list item) : nat := fold_right (fun it a => item_weight it + a) 0 st.

    Definition walk (root : rose) (v : V) (s : St) : option St := walk_main (rsize root) s [INode (Some root) v].
    Definition walk_many (roots : list rose) (v : V) (s : St) : option St :=
      walk_main (item_weight (INodes roots v)) s [INodes roots v].

    (* ---------- specification: recursive pre-order traversal ---------- *)
    Section Spec.
      Variable spec_node : rose -> V -> St -> St.
      Fixpoint spec_each (l : list rose) (ivs : list V) (s : St) {struct l} : St :=
        match l, ivs with
        | x :: l', vi :: ivs' => spec_each l' ivs' (spec_node x vi s)
        | _, _ => s
        end.
      Definition spec_many (l : list rose) (v : V) (s : St) : St :=
        let '(s1, v1) := visit_many s v (map label l) in
        let '(s2, ivs) := index_calls s1 v1 (length l) in
        spec_each l ivs s2.
      Fixpoint spec_kids (kids : list (string * bool * list rose)) (vs : list V) (s : St) {struct kids} : St :=
        match kids, vs with
        | (_, many, l) :: kids', vk :: vs' =>
            spec_kids kids' vs'
              (if many then spec_many l vk s else match l with x :: _ => spec_node x vk s | [] => s end)
        | _, _ => s
        end.
    End Spec.

    (* visit the node; unless pruned: tell the visitor about every field (reverse order, as the code does), then
       traverse the children in declaration order, each with the visitor obtained for its field *)
    Fixpoint spec_node (n : rose) (v : V) (s : St) {struct n} : St :=
      match n with
      | R a kids =>
          let '(s1, r) := visit s v a in
          match r with
          | None => s1
          | Some v1 =>
              let '(s2, vs) := field_calls s1 v1 (rev (map (fun k => fst (fst k)) kids)) in
              spec_kids spec_node kids (rev vs) s2
          end
      end.

    Definition spec_item (it : item) (s : St) : St :=
      match it with
      | INode None _ => s
      | INode (Some n) v => spec_node n v s
      | INodes l v => spec_many spec_node l v s
      end.
    Fixpoint spec_stack (s : St) (st : list item) : St :=
      match st with [] => s | it :: r => spec_stack (spec_item it s) r end.
  End Visitor.
End Rose.

Arguments R {A}.
Arguments label {A}.
Arguments rsize {A}.
Arguments INode {A V}.
Arguments INodes {A V}.

(* ---------- from the universal tree to the traversal view, following the schema ---------- *)
Section ToRose.
  Variable sch : schema_t.
  Section Kids.
    Variable rec : tree -> rose tree.
    Fixpoint nodes_of (l : list tree) : list (rose tree) :=
      match l with
      | [] => []
      | x :: r => match x with TNode _ _ => rec x :: nodes_of r | _ => nodes_of r end
      end.
    Fixpoint kids_by_schema (fds : list (string * fkind)) (fs : list tree) {struct fs} : list (string * bool * list (rose tree)) :=
      match fs, fds with
      | f :: fs', (n, k) :: fds' =>
          match k with
          | KNode _ _ => (n, false, match f with TNode _ _ => [rec f] | _ => [] end) :: kids_by_schema fds' fs'
          | KNodes _ _ => (n, true, match f with TList l => nodes_of l | _ => [] end) :: kids_by_schema fds' fs'
          | _ => kids_by_schema fds' fs'
          end
      | _, _ => []
      end.
  End Kids.
  Fixpoint to_rose (t : tree) : rose tree :=
    match t with
    | TNode ty fs => R t (match assoc ty sch with Some fds => kids_by_schema to_rose fds fs | None => [] end)
    | _ => R t []
    end.
End ToRose.

(* ---------- the adapters of walk.go ---------- *)
Section Inspector.
  Variables A St : Type.
  Variable f : St -> A -> St * bool.       (* func(Node) bool, with whatever state it closes over *)
  (* type inspector func(Node) bool: Visit returns f itself or nil; VisitMany/Field/Index return f *)
  Definition insp_visit (s : St) (_ : unit) (a : A) : St * option unit := let '(s1, b) := f s a in (s1, if b then Some tt else None).
  Definition insp_many (s : St) (_ : unit) (_ : list A) : St * unit := (s, tt).
  Definition insp_field (s : St) (_ : unit) (_ : string) : St * unit := (s, tt).
  Definition insp_index (s : St) (_ : unit) (_ : nat) : St * unit := (s, tt).
  Definition inspect (root : rose A) (s : St) : option St :=
    walk A unit St insp_visit insp_many insp_field insp_index root tt s.
  Definition inspect_spec (root : rose A) (s : St) : St :=
    spec_node A unit St insp_visit insp_many insp_field insp_index root tt s.
End Inspector.

Section Preorder.
  Variables A C : Type.
  Variable yield : C -> A -> C * bool.   (* the consumer of the iterator: false = stop *)
  (* ok := true; Inspect(node, func(n) bool { ok = ok && yield(n); return ok }) *)
  Definition pre_f (st : bool * C) (a : A) : (bool * C) * bool :=
    let '(ok, c) := st in
    if ok then let '(c1, b) := yield c a in ((b, c1), b) else ((false, c), false).
  Definition preorder (root : rose A) (c : C) : option C :=
    option_map snd (inspect A (bool * C) pre_f root (true, c)).
End Preorder.
