(* Tree/Tree.v -- the universal AST: every memefish AST value is a [tree]; which node types exist, which
   fields they have and of which kind is DATA (Gen/Schema.v, regenerated from ast/ast.go on every run). *)
From Coq Require Export String ZArith List Bool Lia.
From Verif Require Export Base.Bytes.
Export ListNotations.
Local Open Scope string_scope.

Inductive tree :=
| TNil                                               (* nil pointer / nil interface *)
| TPos (p : Z)                                       (* token.Pos *)
| TBool (b : bool)
| TInt (z : Z)
| TStr (s : bytes)                                   (* string, []byte, named string constants *)
| TList (l : list tree)                              (* any slice (nil and empty are not distinguished) *)
| TTok (kind raw str : bytes) (pos end_ : Z) (sep : bool)   (* *token.Token inside BadNode.Tokens; sep: Space or Comments non-empty *)
| TNode (ty : string) (fields : list tree).          (* pointer to a node struct; fields in declaration order *)

Inductive fkind :=
| KPos | KBool | KInt | KStr | KToks
| KNode (target : string) (is_iface : bool)
| KNodes (target : string) (is_iface : bool)
| KOther (go_type : string).

Definition schema_t := list (string * list (string * fkind)).
Definition ifaces_t := list (string * list string).

Fixpoint assoc {A} (k : string) (l : list (string * A)) : option A :=
  match l with
  | [] => None
  | (k', v) :: r => if String.eqb k k' then Some v else assoc k r
  end.

Fixpoint mem (k : string) (l : list string) : bool :=
  match l with [] => false | x :: r => String.eqb k x || mem k r end.

(* induction principle that goes through the nested lists *)
Section TreeInd.
  Variable P : tree -> Prop.
  Hypothesis Hnil : P TNil.
  Hypothesis Hpos : forall p, P (TPos p).
  Hypothesis Hbool : forall b, P (TBool b).
  Hypothesis Hint : forall z, P (TInt z).
  Hypothesis Hstr : forall s, P (TStr s).
  Hypothesis Hlist : forall l, Forall P l -> P (TList l).
  Hypothesis Htok : forall k r s p e b, P (TTok k r s p e b).
  Hypothesis Hnode : forall ty fs, Forall P fs -> P (TNode ty fs).

  Fixpoint tree_ind' (t : tree) : P t :=
    match t with
    | TNil => Hnil
    | TPos p => Hpos p
    | TBool b => Hbool b
    | TInt z => Hint z
    | TStr s => Hstr s
    | TList l => Hlist l ((fix go (l : list tree) : Forall P l :=
                             match l with [] => Forall_nil _ | x :: r => Forall_cons _ (tree_ind' x) (go r) end) l)
    | TTok k r s p e b => Htok k r s p e b
    | TNode ty fs => Hnode ty fs ((fix go (l : list tree) : Forall P l :=
                             match l with [] => Forall_nil _ | x :: r => Forall_cons _ (tree_ind' x) (go r) end) fs)
    end.
End TreeInd.

(* size, used as fuel bound for the explicit-stack traversal *)
Fixpoint tsize (t : tree) : nat :=
  match t with
  | TList l => S (fold_right (fun x a => tsize x + a) 0 l)
  | TNode _ fs => S (fold_right (fun x a => tsize x + a) 0 fs)
  | _ => 1
  end.

(* ---------- typing against the schema ---------- *)

Definition is_node (t : tree) : bool := match t with TNode _ _ => true | _ => false end.
Definition node_ty (t : tree) : string := match t with TNode ty _ => ty | _ => "" end.

(* a node stored in a field of static type [target] *)
Definition conforms (ifs : ifaces_t) (target : string) (is_iface : bool) (ty : string) : bool :=
  if is_iface then match assoc target ifs with Some impls => mem ty impls | None => false end
  else String.eqb ty target.

(* one field of declared kind [k] holding [f]; [rec] checks a child node *)
Definition wt_field (ifs : ifaces_t) (rec : tree -> bool) (k : fkind) (f : tree) : bool :=
  match k, f with
  | KPos, TPos _ => true
  | KBool, TBool _ => true
  | KInt, TInt _ => true
  | KStr, TStr _ => true
  | KToks, TList l => forallb (fun x => match x with TTok _ _ _ _ _ _ => true | _ => false end) l
  | KNode _ _, TNil => true
  | KNode tg i, TNode ty' _ => conforms ifs tg i ty' && rec f
  | KNodes tg i, TList l => forallb (fun x => match x with TNode ty' _ => conforms ifs tg i ty' && rec x | _ => false end) l
  | _, _ => false
  end.

Section WtFields.   (* [rec] is bound outside the fixpoint so that the guard checker can unfold through it *)
  Variable ifs : ifaces_t.
  Variable rec : tree -> bool.
  Fixpoint wt_fields (fds : list (string * fkind)) (fs : list tree) {struct fs} : bool :=
    match fs, fds with
    | [], [] => true
    | f :: fs', (_, k) :: fds' => wt_field ifs rec k f && wt_fields fds' fs'
    | _, _ => false
    end.
End WtFields.

Section Typing.
  Variable sch : schema_t.
  Variable ifs : ifaces_t.

  (* [wt t]: every node has exactly the fields of its struct, each of the declared kind; a node-typed field holds
     nil or a node of a conforming type; slices of nodes hold conforming nodes (never nil elements). *)
  Fixpoint wt (t : tree) : bool :=
    match t with
    | TNode ty fs =>
        match assoc ty sch with
        | None => false
        | Some fds => wt_fields ifs wt fds fs
        end
    | _ => false
    end.
End Typing.

(* field access by name *)
Fixpoint field_index (name : string) (fds : list (string * fkind)) : option nat :=
  match fds with
  | [] => None
  | (n, _) :: r => if String.eqb name n then Some 0 else option_map S (field_index name r)
  end.

Definition get_field (sch : schema_t) (t : tree) (name : string) : option tree :=
  match t with
  | TNode ty fs =>
      match assoc ty sch with
      | Some fds => match field_index name fds with Some i => nth_error fs i | None => None end
      | None => None
      end
  | _ => None
  end.

(* the generated traversal switch, one entry per case: pushes (field read, nodes?, Field("label")) in textual order *)
Inductive wbody := WPushes (l : list (string * bool * string)) | WOpaque.

(* the node-typed fields of a struct in declaration order: (name, is it a slice) *)
Fixpoint node_fields (fds : list (string * fkind)) : list (string * bool) :=
  match fds with
  | [] => []
  | (n, KNode _ _) :: r => (n, false) :: node_fields r
  | (n, KNodes _ _) :: r => (n, true) :: node_fields r
  | _ :: r => node_fields r
  end.
