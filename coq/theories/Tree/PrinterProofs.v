(* Tree/PrinterProofs.v -- generic facts about the printer semantics (for every program, every environment). *)
From Verif Require Import Tree.Tree Bytes.Quote Tree.Printer Tree.PosLang Tree.PosProofs Tree.Walk Tree.Checkers.
Local Open Scope string_scope.


(* unfolding equations of the mutually recursive evaluator (each by computation) *)
Section Unfold.
  Variable ip : N -> bool. Variable ρ : penv. Variable sp : option nat.
  Variable sl : list (string * bytes). Variable bl : list (string * bool).
  Notation ES := (eval_s ip ρ sp sl bl). Notation EB := (eval_b ip ρ sp sl bl).
  Lemma es_cat a b : ES (SCat a b) = opt_cat (ES a) (ES b). Proof. reflexivity. Qed.
  Lemma es_opt l f r : ES (SOpt l f r) =
    match ES l, ES r with
    | Some vl, Some vr =>
        match assoc f ρ with
        | Some (PvNode (Some c)) => match ci_sql c with Some s => Some (vl ++ s ++ vr)%list | None => None end
        | Some (PvNode None) | Some (PvNilPtr _) => Some []
        | _ => None
        end
    | _, _ => None
    end. Proof. reflexivity. Qed.
  Lemma es_join f sep : ES (SJoin f sep) =
    match ES sep with
    | Some vs => match assoc f ρ with Some (PvNodes l) => join_sql vs l true | _ => None end
    | None => None
    end. Proof. reflexivity. Qed.
  Lemma es_stropt c s : ES (SStrOpt c s) =
    match EB c, ES s with Some vc, Some vs => Some (if vc then vs else []) | _, _ => None end. Proof. reflexivity. Qed.
  Lemma es_ifelse c a b : ES (SIfElse c a b) =
    match EB c, ES a, ES b with Some vc, Some va, Some vb => Some (if vc then va else vb) | _, _, _ => None end. Proof. reflexivity. Qed.
  Lemma eb_not b : EB (BNot b) = option_map negb (EB b). Proof. reflexivity. Qed.
  Lemma eb_and a b : EB (BAnd a b) = match EB a with Some true => EB b | Some false => Some false | None => None end. Proof. reflexivity. Qed.
  Lemma eb_or a b : EB (BOr a b) = match EB a with Some true => Some true | Some false => EB b | None => None end. Proof. reflexivity. Qed.
  Lemma eb_prefix a b : EB (BHasPrefix a b) = match ES a, ES b with Some x, Some y => Some (has_prefix x y) | _, _ => None end. Proof. reflexivity. Qed.
  Lemma eb_eqs a b : EB (BEqS a b) = match ES a, ES b with Some x, Some y => Some (bytes_eqb x y) | _, _ => None end. Proof. reflexivity. Qed.
End Unfold.

(* ---------- SQL() depends only on the fields its program reads ---------- *)
Section Agree.
  Variable is_print : N -> bool.
  Variables ρ ρ' : penv.
  Variable sp : option nat.

  Definition agree_on (fs : list string) : Prop := forall f, In f fs -> assoc f ρ = assoc f ρ'.

  Lemma agree_app a b : agree_on (a ++ b) -> agree_on a /\ agree_on b.
  Proof. unfold agree_on; split; intros f H0; apply H; apply in_or_app; auto. Qed.
  Lemma agree_cons f r : agree_on (f :: r) -> assoc f ρ = assoc f ρ' /\ agree_on r.
  Proof. unfold agree_on; split; [apply H; left; reflexivity|intros g Hg; apply H; right; exact Hg]. Qed.

  Lemma eval_agree sl bl :
    (forall e, agree_on (fields_s e) -> eval_s is_print ρ sp sl bl e = eval_s is_print ρ' sp sl bl e) /\
    (forall c, agree_on (fields_b c) -> eval_b is_print ρ sp sl bl c = eval_b is_print ρ' sp sl bl c).
  Proof.
    apply (sexp_bexp_mutind
             (fun e => agree_on (fields_s e) -> eval_s is_print ρ sp sl bl e = eval_s is_print ρ' sp sl bl e)
             (fun c => agree_on (fields_b c) -> eval_b is_print ρ sp sl bl c = eval_b is_print ρ' sp sl bl c));
      intros; cbn [fields_s fields_b] in *; rewrite ?es_cat, ?es_opt, ?es_join, ?es_stropt, ?es_ifelse, ?eb_not, ?eb_and, ?eb_or, ?eb_prefix, ?eb_eqs; cbn [eval_s eval_b];
      repeat match goal with
             | H : agree_on (_ ++ _) |- _ => apply agree_app in H; destruct H
             | H : agree_on (_ :: _) |- _ => apply agree_cons in H; destruct H
             end;
      repeat match goal with
             | IH : agree_on ?l -> _ = _, H : agree_on ?l |- _ => rewrite (IH H); clear IH
             | E : assoc ?f ρ = assoc ?f ρ' |- _ => rewrite E; clear E
             end; reflexivity.
  Qed.

  Lemma eval_body_agree b : forall sl bl, agree_on (fields_body b) ->
    eval_body is_print ρ sp sl bl b = eval_body is_print ρ' sp sl bl b.
  Proof.
    induction b as [s|x s k IH|x c k IH|k IH|c a IHa k IHk|]; intros sl bl H; cbn [fields_body eval_body] in *;
      repeat match goal with
             | H : agree_on (_ ++ _) |- _ => apply agree_app in H; destruct H
             end.
    - apply (proj1 (eval_agree sl bl)); assumption.
    - rewrite (proj1 (eval_agree sl bl) s) by assumption. destruct (eval_s _ ρ' _ _ _ s); auto.
    - rewrite (proj2 (eval_agree sl bl) c) by assumption. destruct (eval_b _ ρ' _ _ _ c); auto.
    - destruct sp; auto.
    - rewrite (proj2 (eval_agree sl bl) c) by assumption. destruct (eval_b _ ρ' _ _ _ c) as [[|]|]; auto.
    - reflexivity.
  Qed.
End Agree.

(* Two receivers that agree on every field the (non-opaque) program of their type reads, and on their own precedence,
   unparse identically -- whatever their other fields hold.  Hence a field that SQL() never reads is LOST by unparsing:
   two ASTs differing only there have the same text (this is what makes [unread_fields] a round-trip obligation). *)
Theorem sql_ignores_unread_fields is_print prog ty b ρ ρ' sp :
  assoc ty prog = Some b -> b <> BOpaque ->
  (forall f, In f (used_fields prog ty) -> assoc f ρ = assoc f ρ') ->
  run_prog is_print prog ty ρ sp = run_prog is_print prog ty ρ' sp.
Proof.
  intros A NO H. unfold run_prog, used_fields in *. rewrite A in *.
  destruct b; try congruence; apply eval_body_agree; exact H.
Qed.

(* ---------- totality: when does SQL() return? ---------- *)
(* values a field of declared kind [k] may hold in a receiver all of whose children unparse without panic *)
Definition pval_good (k : fkind) (v : pval) : Prop :=
  match k, v with
  | KPos, PvPos _ | KBool, PvBool _ | KStr, PvStr _ | KInt, PvInt _ | KToks, PvToks _ => True
  | KNode _ i, PvNode None => i = true
  | KNode _ i, PvNilPtr _ => i = false
  | KNode tg _, PvNode (Some c) => ci_sql c <> None /\ (tg = "Expr" -> ci_prec c <> None)
  | KNodes _ _, PvNodes l => Forall (fun c => ci_sql c <> None) l
  | _, _ => False
  end.

Fixpoint env_good (fds : list (string * fkind)) (ρ : penv) : Prop :=
  match fds, ρ with
  | [], [] => True
  | (n, k) :: fds', (n', v) :: ρ' => n = n' /\ pval_good k v /\ env_good fds' ρ'
  | _, _ => False
  end.

Lemma env_good_assoc fds ρ f k : env_good fds ρ -> assoc f fds = Some k -> exists v, assoc f ρ = Some v /\ pval_good k v.
Proof.
  revert ρ; induction fds as [|[n k'] fds IH]; intros [|[n' v'] ρ]; cbn [env_good assoc]; try tauto; try discriminate.
  intros (En & Ok & R) H. subst n'. destruct (String.eqb f n); [inversion H; subst; eauto|eauto].
Qed.

(* fields whose value is dereferenced: recv.F.SQL() and paren(p, recv.F) need a non-nil F (or a nil pointer whose method
   does not touch the receiver); QuoteSQLIdent needs a non-empty name *)
Definition present (ρ : penv) (f : string) : Prop :=
  match assoc f ρ with Some (PvNode (Some _)) => True | Some (PvNilPtr (Some _)) => True | _ => False end.
Definition present_node (ρ : penv) (f : string) : Prop :=
  match assoc f ρ with Some (PvNode (Some _)) => True | _ => False end.
Definition nonempty_str (ρ : penv) (f : string) : Prop :=
  match assoc f ρ with Some (PvStr (_ :: _)) => True | _ => False end.

Fixpoint needs_s (ρ : penv) (sp : option nat) (e : sexp) : Prop :=
  match e with
  | SLit _ | SVar _ | SFieldStr _ | SBool _ _ | SBad => True
  | SCat a b => needs_s ρ sp a /\ needs_s ρ sp b
  | SFieldSQL f => present ρ f
  | SOpt l _ r => needs_s ρ sp l /\ needs_s ρ sp r
  | SJoin _ sep => needs_s ρ sp sep
  | SStrOpt c s => needs_b ρ sp c /\ needs_s ρ sp s
  | SIfElse c a b => needs_b ρ sp c /\ needs_s ρ sp a /\ needs_s ρ sp b
  | SParen p f => present_node ρ f /\ match p with PSelf => sp <> None | PConst _ => True end
  | SQuote QIdent f => nonempty_str ρ f
  | SQuote _ _ => True
  end
with needs_b (ρ : penv) (sp : option nat) (e : bexp) : Prop :=
  match e with
  | BNot b => needs_b ρ sp b
  | BAnd a b | BOr a b => needs_b ρ sp a /\ needs_b ρ sp b
  | BHasPrefix a b | BEqS a b => needs_s ρ sp a /\ needs_s ρ sp b
  | _ => True
  end.

Section Total.
  Variable ip : N -> bool.
  Variable fds : list (string * fkind).
  Variable ρ : penv.
  Variable sp : option nat.
  Hypothesis Hρ : env_good fds ρ.
  Variable sl : list (string * bytes). Variable bl : list (string * bool).
  Variables sv bv : list string.
  Hypothesis Hsl : forall x, mem x sv = true -> assoc x sl <> None.
  Hypothesis Hbl : forall x, mem x bv = true -> assoc x bl <> None.

  Ltac kind f := let k := fresh "k" in let v := fresh "v" in let A := fresh "A" in let G := fresh "G" in let E := fresh "E" in
    unfold fk in *;
    destruct (assoc f fds) as [k|] eqn:A; [|congruence];
    destruct (env_good_assoc _ _ _ _ Hρ A) as (v & E & G); rewrite E in *; clear E.
  Ltac solve_leaf :=
    cbn in *; try tauto; try discriminate; try congruence;
    repeat match goal with
           | H : _ /\ _ |- _ => destruct H
           | H : match ?x with _ => _ end |- _ => destruct x; try tauto
           | |- match ?x with _ => _ end <> None => destruct x; try tauto; try congruence; try discriminate
           end; try tauto; try discriminate; try congruence.
  Ltac leaf f := kind f; match goal with k : fkind |- _ => destruct k; try discriminate end;
    match goal with v : pval |- _ => destruct v as [| | | |[?c|]|?r| | |] end; solve_leaf.

  Lemma join_total sep l : Forall (fun c => ci_sql c <> None) l -> forall b0, join_sql sep l b0 <> None.
  Proof.
    induction 1 as [|c l Hc Hl IH]; intros b0; cbn [join_sql]; [discriminate|].
    destruct (ci_sql c); [|congruence]. specialize (IH false). destruct (join_sql sep l false); congruence.
  Qed.

  Lemma eval_total :
    (forall e, wf_s fds sv bv e = true -> needs_s ρ sp e -> eval_s ip ρ sp sl bl e <> None) /\
    (forall c, wf_b fds sv bv c = true -> needs_b ρ sp c -> eval_b ip ρ sp sl bl c <> None).
  Proof.
    apply (sexp_bexp_mutind
             (fun e => wf_s fds sv bv e = true -> needs_s ρ sp e -> eval_s ip ρ sp sl bl e <> None)
             (fun c => wf_b fds sv bv c = true -> needs_b ρ sp c -> eval_b ip ρ sp sl bl c <> None));
      intros; cbn [wf_s wf_b needs_s needs_b] in *;
      rewrite ?es_cat, ?es_opt, ?es_join, ?es_stropt, ?es_ifelse, ?eb_not, ?eb_and, ?eb_or, ?eb_prefix, ?eb_eqs; cbn [eval_s eval_b];
      repeat match goal with
             | H : _ && _ = true |- _ => apply andb_true_iff in H; destruct H
             | H : _ /\ _ |- _ => destruct H
             end;
      repeat match goal with
             | IH : ?w = true -> ?n -> ?e <> None, Hw : ?w = true, Hn : ?n |- _ => specialize (IH Hw Hn)
             end.
    - discriminate.
    - destruct (eval_s ip ρ sp sl bl a), (eval_s ip ρ sp sl bl b); cbn; congruence.
    - auto.
    - (* SFieldSQL *) unfold present, is_node in *. leaf f.
    - unfold is_str in *. leaf f.
    - (* SOpt *) unfold is_node in *.
      destruct (eval_s ip ρ sp sl bl l); [|congruence]. destruct (eval_s ip ρ sp sl bl r); [|congruence].
      leaf f.
    - (* SJoin *) unfold is_nodes in *. destruct (eval_s ip ρ sp sl bl sep); [|congruence].
      leaf f. apply join_total; exact G.
    - destruct (eval_b ip ρ sp sl bl c); [|congruence]. destruct (eval_s ip ρ sp sl bl s); [discriminate|congruence].
    - destruct (eval_b ip ρ sp sl bl c); [|congruence]. destruct (eval_s ip ρ sp sl bl a); [|congruence].
      destruct (eval_s ip ρ sp sl bl b); [discriminate|congruence].
    - (* SParen *) unfold is_expr_node, present_node in *. kind f.
      destruct k as [| | | | |tg i| |]; try discriminate. destruct i; try discriminate.
      apply String.eqb_eq in H. subst tg.
      destruct v as [| | | |[c|]|r| | |]; cbn in *; try tauto.
      destruct G as [G1 G2]. specialize (G2 eq_refl).
      destruct p; [destruct sp; [|tauto]|]; (destruct (ci_prec c); [|tauto]; destruct (ci_sql c); [discriminate|tauto]).
    - (* SQuote *) unfold is_str, nonempty_str in *. kind f.
      destruct k0; try discriminate; destruct v as [| |s| | | | | |]; cbn in *; try tauto.
      destruct k; try discriminate.
      destruct s; [tauto|]. unfold quote_ident. destruct (need_quote_ident _); discriminate.
    - unfold is_bool in *. leaf f.
    - discriminate.
    - discriminate.
    - auto.
    - destruct (eval_b ip ρ sp sl bl b); cbn; congruence.
    - destruct (eval_b ip ρ sp sl bl a) as [[|]|]; congruence.
    - destruct (eval_b ip ρ sp sl bl a) as [[|]|]; congruence.
    - unfold is_bool in *. leaf f.
    - unfold is_pos in *. leaf f.
    - destruct (eval_s ip ρ sp sl bl a); [|congruence]. destruct (eval_s ip ρ sp sl bl b); [discriminate|congruence].
    - unfold has_len in *. leaf f.
    - unfold is_node in *. leaf f.
    - destruct (eval_s ip ρ sp sl bl a); [|congruence]. destruct (eval_s ip ρ sp sl bl b); [discriminate|congruence].
    - unfold is_node in *. leaf f.
  Qed.
End Total.

Fixpoint needs_body (ρ : penv) (sp : option nat) (b : pbody) : Prop :=
  match b with
  | BRet s => needs_s ρ sp s
  | BLetS _ s k => needs_s ρ sp s /\ needs_body ρ sp k
  | BLetB _ c k => needs_b ρ sp c /\ needs_body ρ sp k
  | BLetP k => sp <> None /\ needs_body ρ sp k
  | BIf c a k => needs_b ρ sp c /\ needs_body ρ sp a /\ needs_body ρ sp k
  | BOpaque => False
  end.

(* SQL() returns (no nil dereference, no "exprPrec: unexpected", no index panic) on every receiver whose fields have the
   declared kinds, whose children all unparse, and whose dereferenced fields are present -- for EVERY well-kinded program *)
Theorem eval_body_total ip fds ρ sp (Hρ : env_good fds ρ) b :
  forall sl bl sv bv,
    (forall x, mem x sv = true -> assoc x sl <> None) ->
    (forall x, mem x bv = true -> assoc x bl <> None) ->
    wf_body fds sv bv b = true -> needs_body ρ sp b ->
    eval_body ip ρ sp sl bl b <> None.
Proof.
  induction b as [s|x s k IH|x c k IH|k IH|c a IHa k IHk|]; intros sl bl sv bv Hs Hb W N; cbn [wf_body needs_body eval_body] in *.
  - exact (proj1 (eval_total ip fds ρ sp Hρ sl bl sv bv Hs Hb) s W N).
  - apply andb_true_iff in W as [W1 W2]. destruct N as [N1 N2].
    pose proof (proj1 (eval_total ip fds ρ sp Hρ sl bl sv bv Hs Hb) s W1 N1) as E.
    destruct (eval_s ip ρ sp sl bl s) as [v|]; [|congruence].
    apply (IH _ _ (x :: sv) bv); auto.
    intros y Hy. cbn [mem] in Hy. cbn [assoc]. destruct (String.eqb y x); [discriminate|]. apply Hs. exact Hy.
  - apply andb_true_iff in W as [W1 W2]. destruct N as [N1 N2].
    pose proof (proj2 (eval_total ip fds ρ sp Hρ sl bl sv bv Hs Hb) c W1 N1) as E.
    destruct (eval_b ip ρ sp sl bl c) as [v|]; [|congruence].
    apply (IH _ _ sv (x :: bv)); auto.
    intros y Hy. cbn [mem] in Hy. cbn [assoc]. destruct (String.eqb y x); [discriminate|]. apply Hb. exact Hy.
  - destruct N as [N1 N2]. destruct sp; [|congruence]. eapply IH; eauto.
  - apply andb_true_iff in W as [W W3]. apply andb_true_iff in W as [W1 W2]. destruct N as (N1 & N2 & N3).
    pose proof (proj2 (eval_total ip fds ρ sp Hρ sl bl sv bv Hs Hb) c W1 N1) as E.
    destruct (eval_b ip ρ sp sl bl c) as [[|]|]; [eapply IHa; eauto|eapply IHk; eauto|congruence].
  - destruct N.
Qed.
