(* Tree/Checkers.v -- decidable checks on the regenerated tables, with their soundness lemmas (generic in the tables). *)
From Verif Require Import Tree.Tree Tree.PosLang Tree.PosProofs Tree.Walk.
Local Open Scope string_scope.

Fixpoint nodup_names (l : list string) : bool :=
  match l with [] => true | x :: r => negb (mem x r) && nodup_names r end.

(* no struct uses a field type the translator could not classify; names are unique; references resolve *)
Definition schema_ok (sch : schema_t) (ifs : ifaces_t) : bool :=
  nodup_names (map fst sch) &&
  forallb (fun '(_, fds) =>
             nodup_names (map fst fds) &&
             forallb (fun '(_, k) => match k with
                                     | KOther _ => false
                                     | KNode tg false | KNodes tg false => mem tg (map fst sch)
                                     | KNode tg true | KNodes tg true => mem tg (map fst ifs)
                                     | _ => true
                                     end) fds) sch &&
  forallb (fun '(_, impls) => forallb (fun ty => mem ty (map fst sch)) impls) ifs.

(* the generated switch pushes exactly the node-typed fields, in reverse declaration order, each read with
   wrapNode/wrapNodes according to its kind and announced with Field(<its own name>) *)
Definition walk_table_ok (sch : schema_t) (w : list (string * wbody)) : bool :=
  forallb (fun '(ty, fds) =>
             match assoc ty w with
             | Some (WPushes l) =>
                 let want := rev (map (fun '(n, many) => (n, many, n)) (node_fields fds)) in
                 (length l =? length want)%nat &&
                 forallb (fun '((f, m, lbl), (f', m', lbl')) => String.eqb f f' && Bool.eqb m m' && String.eqb lbl lbl')
                         (combine l want)
             | _ => false
             end) sch
  && (length w =? length sch)%nat && nodup_names (map fst w).

Theorem walk_table_sound sch w : walk_table_ok sch w = true ->
  forall ty fds, assoc ty sch = Some fds ->
  exists l, assoc ty w = Some (WPushes l) /\
            map (fun '(f, m, lbl) => (f, m)) (rev l) = node_fields fds /\
            Forall (fun '(f, m, lbl) => lbl = f) l.
Proof.
  intros H ty fds A. unfold walk_table_ok in H.
  apply andb_true_iff in H as [H _]. apply andb_true_iff in H as [H _].
  rewrite forallb_forall in H. specialize (H _ (assoc_in _ _ _ A)). cbn beta iota in H.
  destruct (assoc ty w) as [[l|]|]; try discriminate.
  exists l. split; [reflexivity|].
  apply andb_true_iff in H as [HL HF]. apply Nat.eqb_eq in HL.
  set (want := rev (map (fun '(n, many) => (n, many, n)) (node_fields fds))) in *.
  assert (E : l = want).
  { clearbody want. revert want HL HF. induction l as [|[[f m] lbl] l IH]; intros [|[[f' m'] lbl'] w'] HL HF; try discriminate; auto.
    cbn in HF. apply andb_true_iff in HF as [H1 H2]. apply andb_true_iff in H1 as [H1 H3]. apply andb_true_iff in H1 as [H1 H4].
    apply String.eqb_eq in H1, H3. apply Bool.eqb_prop in H4. subst. f_equal. apply IH; auto. }
  subst l. unfold want. rewrite rev_involutive. split.
  - rewrite map_map. clear. induction (node_fields fds) as [|[n many] r IH]; cbn; [reflexivity|]. f_equal. exact IH.
  - apply Forall_rev. apply Forall_forall. intros [[f m] lbl] HI. apply in_map_iff in HI as ([n many] & E & _). inversion E; reflexivity.
Qed.

(* the traversal view built from the schema lists, per node, exactly the node-typed fields in declaration order *)
Lemma kids_by_schema_fields rec fds fs : length fs = length fds ->
  map (fun k => (fst (fst k), snd (fst k))) (kids_by_schema rec fds fs) = node_fields fds.
Proof.
  revert fds; induction fs as [|f fs IH]; intros [|[n k] fds] L; try discriminate; [reflexivity|].
  cbn [kids_by_schema node_fields]. injection L as L.
  destruct k; cbn [map fst snd]; rewrite ?IH; auto.
Qed.

(* diagnostics (extracted; not used in any theorem): which node types fail a table check *)
Definition pos_table_failures (sch : schema_t) (spec : list (string * (pexpr * pexpr))) (impl : list (string * (gbody * gbody))) : list string :=
  map fst (filter (fun '(ty, fds) =>
             negb match assoc ty spec, assoc ty impl with
                  | Some (sp, se), Some (ip, ie) =>
                      gbody_eqb (compile sp) ip && gbody_eqb (compile se) ie && wf_p fds sp && wf_p fds se
                  | _, _ => false
                  end) sch).
Definition walk_table_failures (sch : schema_t) (w : list (string * wbody)) : list string :=
  map fst (filter (fun '(ty, fds) =>
             negb match assoc ty w with
                  | Some (WPushes l) =>
                      let want := rev (map (fun '(n, many) => (n, many, n)) (node_fields fds)) in
                      (length l =? length want)%nat &&
                      forallb (fun '((f, m, lbl), (f', m', lbl')) => String.eqb f f' && Bool.eqb m m' && String.eqb lbl lbl')
                              (combine l want)
                  | _ => false
                  end) sch).
