(* Tree/Checkers.v -- decidable checks on the regenerated tables, with their soundness lemmas (generic in the tables). *)
From Verif Require Import Tree.Tree Tree.PosLang Tree.PosProofs Tree.Walk.
Local Open Scope string_scope.

Fixpoint nodup_names (l : list string) : bool :=
  match l with [] => true | x :: r => negb (mem x r) && nodup_names r end.

(* no struct uses a field type the translator could not classify; names are unique; references resolve *)
Definition schema_ok (sch : schema_t) (ifs : ifaces_t) : bool :=
  nodup_names (map fst sch) &&
  forallb (fun '(_, fds) =>
             nodup_names (map fst fds) &&
             forallb (fun '(_, k) => match k with
                                     | KOther _ => false
                                     | KNode tg false | KNodes tg false => mem tg (map fst sch)
                                     | KNode tg true | KNodes tg true => mem tg (map fst ifs)
                                     | _ => true
                                     end) fds) sch &&
  forallb (fun '(_, impls) => forallb (fun ty => mem ty (map fst sch)) impls) ifs.

(* the generated switch pushes exactly the node-typed fields, in reverse declaration order, each read with
   wrapNode/wrapNodes according to its kind and announced with Field(<its own name>) *)
Definition walk_table_ok (sch : schema_t) (w : list (string * wbody)) : bool :=
  forallb (fun '(ty, fds) =>
             match assoc ty w with
             | Some (WPushes l) =>
                 let want := rev (map (fun '(n, many) => (n, many, n)) (node_fields fds)) in
                 (length l =? length want)%nat &&
                 forallb (fun '((f, m, lbl), (f', m', lbl')) => String.eqb f f' && Bool.eqb m m' && String.eqb lbl lbl')
                         (combine l want)
             | _ => false
             end) sch
  && (length w =? length sch)%nat && nodup_names (map fst w).

Theorem walk_table_sound sch w : walk_table_ok sch w = true ->
  forall ty fds, assoc ty sch = Some fds ->
  exists l, assoc ty w = Some (WPushes l) /\
            map (fun '(f, m, lbl) => (f, m)) (rev l) = node_fields fds /\
            Forall (fun '(f, m, lbl) => lbl = f) l.
Proof.
  intros H ty fds A. unfold walk_table_ok in H.
  apply andb_true_iff in H as [H _]. apply andb_true_iff in H as [H _].
  rewrite forallb_forall in H. specialize (H _ (assoc_in _ _ _ A)). cbn beta iota in H.
  destruct (assoc ty w) as [[l|]|]; try discriminate.
  exists l. split; [reflexivity|].
  apply andb_true_iff in H as [HL HF]. apply Nat.eqb_eq in HL.
  set (want := rev (map (fun '(n, many) => (n, many, n)) (node_fields fds))) in *.
  assert (E : l = want).
  { clearbody want. revert want HL HF. induction l as [|[[f m] lbl] l IH]; intros [|[[f' m'] lbl'] w'] HL HF; try discriminate; auto.
    cbn in HF. apply andb_true_iff in HF as [H1 H2]. apply andb_true_iff in H1 as [H1 H3]. apply andb_true_iff in H1 as [H1 H4].
    apply String.eqb_eq in H1, H3. apply Bool.eqb_prop in H4. subst. f_equal. apply IH; auto. }
  subst l. unfold want. rewrite rev_involutive. split.
  - rewrite map_map. clear. induction (node_fields fds) as [|[n many] r IH]; cbn; [reflexivity|]. f_equal. exact IH.
  - apply Forall_rev. apply Forall_forall. intros [[f m] lbl] HI. apply in_map_iff in HI as ([n many] & E & _). inversion E; reflexivity.
Qed.

(* the traversal view built from the schema lists, per node, exactly the node-typed fields in declaration order *)
Lemma kids_by_schema_fields rec fds fs : length fs = length fds ->
  map (fun k => (fst (fst k), snd (fst k))) (kids_by_schema rec fds fs) = node_fields fds.
Proof.
  revert fds; induction fs as [|f fs IH]; intros [|[n k] fds] L; try discriminate; [reflexivity|].
  cbn [kids_by_schema node_fields]. injection L as L.
  destruct k; cbn [map fst snd]; rewrite ?IH; auto.
Qed.

(* diagnostics (extracted; not used in any theorem): which node types fail a table check *)
Definition pos_table_failures (sch : schema_t) (spec : list (string * (pexpr * pexpr))) (impl : list (string * (gbody * gbody))) : list string :=
  map fst (filter (fun '(ty, fds) =>
             negb match assoc ty spec, assoc ty impl with
                  | Some (sp, se), Some (ip, ie) =>
                      gbody_eqb (compile sp) ip && gbody_eqb (compile se) ie && wf_p fds sp && wf_p fds se
                  | _, _ => false
                  end) sch).
Definition walk_table_failures (sch : schema_t) (w : list (string * wbody)) : list string :=
  map fst (filter (fun '(ty, fds) =>
             negb match assoc ty w with
                  | Some (WPushes l) =>
                      let want := rev (map (fun '(n, many) => (n, many, n)) (node_fields fds)) in
                      (length l =? length want)%nat &&
                      forallb (fun '((f, m, lbl), (f', m', lbl')) => String.eqb f f' && Bool.eqb m m' && String.eqb lbl lbl')
                              (combine l want)
                  | _ => false
                  end) sch).

(* ================= printer programs ================= *)
From Verif Require Import Tree.Printer.

Fixpoint fields_s (e : sexp) : list string :=
  match e with
  | SLit _ | SVar _ | SBad => []
  | SCat a b => fields_s a ++ fields_s b
  | SFieldSQL f | SFieldStr f | SParen _ f | SQuote _ f | SBool _ f => [f]
  | SOpt l f r => fields_s l ++ f :: fields_s r
  | SJoin f sep => f :: fields_s sep
  | SStrOpt c s => fields_b c ++ fields_s s
  | SIfElse c a b => fields_b c ++ fields_s a ++ fields_s b
  end
with fields_b (e : bexp) : list string :=
  match e with
  | BTrue | BVar _ => []
  | BNot b => fields_b b
  | BAnd a b | BOr a b => fields_b a ++ fields_b b
  | BField f | BPosInvalid f | BLen _ f _ | BNil f | BIsType f _ => [f]
  | BHasPrefix a b | BEqS a b => fields_s a ++ fields_s b
  end.

Fixpoint fields_body (b : pbody) : list string :=
  match b with
  | BRet s => fields_s s
  | BLetS _ s k => fields_s s ++ fields_body k
  | BLetB _ c k => fields_b c ++ fields_body k
  | BLetP k => fields_body k
  | BIf c a k => fields_b c ++ fields_body a ++ fields_body k
  | BOpaque => []
  end.

(* fields read by the hand-modelled bodies *)
Definition special_fields (ty : string) : list string :=
  if String.eqb ty "BadNode" then ["Tokens"]
  else if String.eqb ty "OptionsDef" then ["Name"; "Value"]
  else if String.eqb ty "ChangeStreamForTables" then ["Tables"]
  else [].

Definition used_fields (prog : list (string * pbody)) (ty : string) : list string :=
  match assoc ty prog with
  | Some BOpaque => special_fields ty
  | Some b => fields_body b
  | None => []
  end.

(* does the self precedence (the Op field of Binary/UnaryExpr) count as read?  exprPrec(recv) reads it *)
Fixpoint uses_self_prec (b : pbody) : bool :=
  match b with BLetP _ => true | BLetS _ _ k | BLetB _ _ k => uses_self_prec k | BIf _ a k => uses_self_prec a || uses_self_prec k | _ => false end.

(* fields that carry no information of their own; each entry is justified in DESIGN.md *)
Definition derived_fields : list (string * string) :=
  [ ("IntLiteral", "Base")                  (* a function of Value: 16 iff Value spells 0x.., else 10 *)
  ; ("SetNoSkipRange", "NoSkipRange")       (* required marker child without content *)
  ; ("BadQueryExpr", "Hint")                (* never populated by any construction site *)
  ; ("BadNode", "NodePos"); ("BadNode", "NodeEnd") ].

Definition is_derived (ty f : string) : bool :=
  existsb (fun '(t, g) => String.eqb t ty && String.eqb g f) derived_fields.

(* every field that is not a bare position must be read by SQL() *)
Definition unread_fields (sch : schema_t) (prog : list (string * pbody)) : list (string * string) :=
  flat_map (fun '(ty, fds) =>
              let used := used_fields prog ty in
              flat_map (fun '(f, k) =>
                          match k with
                          | KPos => []
                          | _ => if mem f used || is_derived ty f then [] else [(ty, f)]
                          end) fds) sch.

(* position fields read through validity (e.g. AsAlias.As decides whether "AS" is printed) are reported, not required *)

(* every separator of a list contains a byte that cannot continue a token on either side:
   blank, newline, comma, dot, or any punctuation that is a token by itself *)
Definition separating_byte (b : byte) : bool :=
  negb (is_ident_part b) && negb (beq b x22) && negb (beq b x27) && negb (beq b x60) && negb (beq b x2d) && negb (beq b x2f) && negb (beq b x23).

Fixpoint sep_lits (e : sexp) : list sexp :=
  match e with
  | SJoin _ sep => [sep]
  | SCat a b => sep_lits a ++ sep_lits b
  | SOpt l _ r => sep_lits l ++ sep_lits r
  | SStrOpt _ s => sep_lits s
  | SIfElse _ a b => sep_lits a ++ sep_lits b
  | _ => []
  end.
Fixpoint sep_body (b : pbody) : list sexp :=
  match b with
  | BRet s => sep_lits s
  | BLetS _ s k => sep_lits s ++ sep_body k
  | BLetB _ _ k | BLetP k => sep_body k
  | BIf _ a k => sep_body a ++ sep_body k
  | BOpaque => []
  end.
(* the first literal piece of a separator expression must start or end with a separating byte *)
Fixpoint sep_ok (e : sexp) : bool :=
  match e with
  | SLit b => existsb separating_byte b
  | SCat a b => sep_ok a || sep_ok b
  | _ => false
  end.
Definition bad_separators (prog : list (string * pbody)) : list string :=
  flat_map (fun '(ty, b) => if forallb sep_ok (sep_body b) then [] else [ty]) prog.

(* kinds: every field a program reads exists in the struct and has the kind the construct needs *)
Section ProgWf.
  Variable ifs : ifaces_t.
  Variable fds : list (string * fkind).
  Definition fk (f : string) : option fkind := assoc f fds.
  Definition is_str f := match fk f with Some KStr => true | _ => false end.
  Definition is_node f := match fk f with Some (KNode _ _) => true | _ => false end.
  Definition is_nodes f := match fk f with Some (KNodes _ _) => true | _ => false end.
  Definition is_bool f := match fk f with Some KBool => true | _ => false end.
  Definition is_pos f := match fk f with Some KPos => true | _ => false end.
  Definition is_expr_node f := match fk f with Some (KNode tg true) => String.eqb tg "Expr" | _ => false end.
  Definition has_len f := match fk f with Some (KNodes _ _) | Some KStr | Some KToks => true | _ => false end.

  Fixpoint wf_s (sv bv : list string) (e : sexp) : bool :=
    match e with
    | SLit _ => true
    | SCat a b => wf_s sv bv a && wf_s sv bv b
    | SVar x => mem x sv
    | SFieldSQL f => is_node f
    | SFieldStr f => is_str f
    | SOpt l f r => wf_s sv bv l && is_node f && wf_s sv bv r
    | SJoin f sep => is_nodes f && wf_s sv bv sep
    | SStrOpt c s => wf_b sv bv c && wf_s sv bv s
    | SIfElse c a b => wf_b sv bv c && wf_s sv bv a && wf_s sv bv b
    | SParen _ f => is_expr_node f
    | SQuote _ f => is_str f
    | SBool _ f => is_bool f
    | SBad => false
    end
  with wf_b (sv bv : list string) (e : bexp) : bool :=
    match e with
    | BTrue => true
    | BVar x => mem x bv
    | BNot b => wf_b sv bv b
    | BAnd a b | BOr a b => wf_b sv bv a && wf_b sv bv b
    | BField f => is_bool f
    | BPosInvalid f => is_pos f
    | BHasPrefix a b | BEqS a b => wf_s sv bv a && wf_s sv bv b
    | BLen _ f _ => has_len f
    | BNil f | BIsType f _ => is_node f
    end.
  Fixpoint wf_body (sv bv : list string) (b : pbody) : bool :=
    match b with
    | BRet s => wf_s sv bv s
    | BLetS x s k => wf_s sv bv s && wf_body (x :: sv) bv k
    | BLetB x c k => wf_b sv bv c && wf_body sv (x :: bv) k
    | BLetP k => wf_body sv bv k
    | BIf c a k => wf_b sv bv c && wf_body sv bv a && wf_body sv bv k
    | BOpaque => true
    end.
End ProgWf.

Definition printer_ok (sch : schema_t) (ifs : ifaces_t) (prog : list (string * pbody)) (ptab : list (string * prec_rule)) : bool :=
  (* one program per node type, nothing else; opaque exactly where a hand model exists; kinds fit *)
  forallb (fun '(ty, fds) =>
             match assoc ty prog with
             | Some BOpaque => mem ty hand_modelled
             | Some b => negb (mem ty hand_modelled) && wf_body fds [] [] b
             | None => false
             end) sch
  && (length prog =? length sch)%nat && nodup_names (map fst prog)
  (* exprPrec knows every implementer of Expr *)
  && match assoc "Expr" ifs with
     | Some impls => forallb (fun ty => match assoc ty ptab with Some (PrFixed _) => true | Some (PrByField f _) =>
                                          match assoc ty sch with Some fds => is_str fds f | None => false end | _ => false end) impls
     | None => false
     end
  && forallb (fun '(ty, _) => match assoc "Expr" ifs with Some impls => mem ty impls | None => false end) ptab.

Definition prec_missing (ifs : ifaces_t) (ptab : list (string * prec_rule)) : list string :=
  match assoc "Expr" ifs with
  | Some impls => filter (fun ty => match assoc ty ptab with Some (PrFixed _) | Some (PrByField _ _) => false | _ => true end) impls
  | None => ["?Expr"]
  end.
Definition printer_failures (sch : schema_t) (prog : list (string * pbody)) : list string :=
  map fst (filter (fun '(ty, fds) =>
             negb match assoc ty prog with
                  | Some BOpaque => mem ty hand_modelled
                  | Some b => negb (mem ty hand_modelled) && wf_body fds [] [] b
                  | None => false
                  end) sch).

Definition pair_mem (x : string * string) (l : list (string * string)) : bool :=
  existsb (fun '(t, g) => String.eqb t (fst x) && String.eqb g (snd x)) l.
Lemma pair_mem_in x l : pair_mem x l = true -> In x l.
Proof.
  unfold pair_mem. intros H. apply existsb_exists in H as ([t g] & HI & E).
  apply andb_true_iff in E as [E1 E2]. apply String.eqb_eq in E1, E2. destruct x; cbn in *; subst. exact HI.
Qed.

(* ================= package-level state (C18) ================= *)
(* a write is allowed only inside init() (it runs before any call can start) *)
Definition globals_ok (writes : list (string * string * string * string * string)) (gos imports : list (string * string))
           (field_writes : list (string * string)) (per_call_types : list string) : bool :=
  forallb (fun '(_, fn, _, _, _) => String.eqb fn "init") writes
  && match gos with [] => true | _ => false end
  && match imports with [] => true | _ => false end
  (* fields written through a receiver belong to the per-call objects allocated by newParser / Lexer.Clone *)
  && forallb (fun '(m, _) => existsb (fun t => String.prefix (t ++ ".") m) per_call_types) field_writes.
