(* Tree/Printer.v -- the language of the SQL() methods of ast/sql.go (as data: Gen/PrintProg.v, regenerated every run)
   and its semantics over the universal tree.  Go's evaluation order and strictness are kept: every helper
   (sqlOpt, sqlJoin, strOpt, strIfElse, paren, QuoteSQLx) evaluates all its arguments; && and || short-circuit; `if`
   statements choose one branch.  [None] is a Go runtime panic (nil dereference, "exprPrec: unexpected",
   index out of range in QuoteSQLIdent("")).
   The three bodies that are loops / type switches are modelled by hand (special_sql); the per-run obligation checks
   that exactly those are opaque in the regenerated data. *)
From Verif Require Import Tree.Tree Bytes.Quote.
Local Open Scope string_scope.

Inductive qkind := QIdent | QString | QBytes.
Inductive cmp := CGt | CEq | CNe.
Inductive pexp := PSelf | PConst (n : nat).

Inductive sexp :=
| SLit (b : bytes) | SCat (a b : sexp) | SVar (x : string)
| SFieldSQL (f : string)                      (* recv.F.SQL() *)
| SFieldStr (f : string)                      (* recv.F / string(recv.F) *)
| SOpt (l : sexp) (f : string) (r : sexp)     (* sqlOpt(l, recv.F, r) *)
| SJoin (f : string) (sep : sexp)             (* sqlJoin(recv.F, sep) *)
| SStrOpt (c : bexp) (s : sexp)               (* strOpt(c, s) *)
| SIfElse (c : bexp) (a b : sexp)             (* strIfElse(c, a, b) *)
| SParen (p : pexp) (f : string)              (* paren(p, recv.F) *)
| SQuote (k : qkind) (f : string)             (* token.QuoteSQLx(recv.F) *)
| SBool (upper : bool) (f : string)           (* formatBoolUpper / strconv.FormatBool *)
| SBad
with bexp :=
| BTrue | BVar (x : string) | BNot (b : bexp) | BAnd (a b : bexp) | BOr (a b : bexp)
| BField (f : string) | BPosInvalid (f : string) | BHasPrefix (a b : sexp)
| BLen (c : cmp) (f : string) (n : nat) | BNil (f : string) | BEqS (a b : sexp) | BIsType (f : string) (ty : string).

Scheme sexp_mut := Induction for sexp Sort Prop
  with bexp_mut := Induction for bexp Sort Prop.
Combined Scheme sexp_bexp_mutind from sexp_mut, bexp_mut.

Inductive pbody :=
| BRet (s : sexp) | BLetS (x : string) (s : sexp) (k : pbody) | BLetB (x : string) (b : bexp) (k : pbody)
| BLetP (k : pbody)                            (* p := exprPrec(recv) *)
| BIf (c : bexp) (a k : pbody) | BOpaque.

Inductive prec_rule := PrFixed (n : nat) | PrByField (f : string) (l : list (bytes * nat)) | PrOpaque.

(* what a parent can observe of a child node *)
Record cinfo := { ci_ty : string; ci_sql : option bytes; ci_prec : option nat; ci_tree : tree }.

Inductive pval :=
| PvPos (p : Z) | PvBool (b : bool) | PvStr (s : bytes) | PvInt (z : Z)
| PvNode (o : option cinfo)                   (* interface or pointer holding a node / nil interface *)
| PvNilPtr (sql_if_called : option bytes)     (* nil pointer to T: what calling SQL on it does *)
| PvNodes (l : list cinfo) | PvToks (l : list tree) | PvBadVal.
Definition penv := list (string * pval).

Fixpoint assocb {A} (k : bytes) (l : list (bytes * A)) : option A :=
  match l with [] => None | (k', v) :: r => if bytes_eqb k k' then Some v else assocb k r end.

Fixpoint has_prefix (s p : bytes) : bool :=
  match p, s with
  | [], _ => true
  | a :: p', b :: s' => beq a b && has_prefix s' p'
  | _, [] => false
  end.

Definition opt_cat (a b : option bytes) : option bytes :=
  match a, b with Some x, Some y => Some (x ++ y)%list | _, _ => None end.

Fixpoint join_sql (sep : bytes) (l : list cinfo) (first : bool) : option bytes :=
  match l with
  | [] => Some []
  | c :: r => match ci_sql c, join_sql sep r false with
              | Some s, Some rest => Some ((if first then [] else sep) ++ s ++ rest)%list
              | _, _ => None
              end
  end.

Definition bs_true := [x74; x72; x75; x65].  Definition bs_false := [x66; x61; x6c; x73; x65].
Definition bs_TRUE := [x54; x52; x55; x45].  Definition bs_FALSE := [x46; x41; x4c; x53; x45].

Section Eval.
  Variable is_print : N -> bool.
  Variable ρ : penv.
  Variable self_prec : option nat.

  Section Locals.
    Variable sl : list (string * bytes).
    Variable bl : list (string * bool).

    Fixpoint eval_s (e : sexp) : option bytes :=
      match e with
      | SLit b => Some b
      | SCat a b => opt_cat (eval_s a) (eval_s b)
      | SVar x => assoc x sl
      | SFieldSQL f => match assoc f ρ with
                       | Some (PvNode (Some c)) => ci_sql c
                       | Some (PvNilPtr r) => r
                       | _ => None
                       end
      | SFieldStr f => match assoc f ρ with Some (PvStr s) => Some s | _ => None end
      | SOpt l f r =>
          match eval_s l, eval_s r with
          | Some vl, Some vr =>
              match assoc f ρ with
              | Some (PvNode (Some c)) => match ci_sql c with Some s => Some (vl ++ s ++ vr)%list | None => None end
              | Some (PvNode None) | Some (PvNilPtr _) => Some []
              | _ => None
              end
          | _, _ => None
          end
      | SJoin f sep =>
          match eval_s sep with
          | Some vs => match assoc f ρ with Some (PvNodes l) => join_sql vs l true | _ => None end
          | None => None
          end
      | SStrOpt c s =>
          match eval_b c, eval_s s with
          | Some vc, Some vs => Some (if vc then vs else [])
          | _, _ => None
          end
      | SIfElse c a b =>
          match eval_b c, eval_s a, eval_s b with
          | Some vc, Some va, Some vb => Some (if vc then va else vb)
          | _, _, _ => None
          end
      | SParen p f =>
          match (match p with PSelf => self_prec | PConst n => Some n end), assoc f ρ with
          | Some pv, Some (PvNode (Some c)) =>
              match ci_prec c, ci_sql c with
              | Some ep, Some s => Some (if Nat.leb ep pv then s else [x28] ++ s ++ [x29])%list
              | _, _ => None
              end
          | _, _ => None                       (* nil operand: exprPrec panics *)
          end
      | SQuote k f =>
          match assoc f ρ with
          | Some (PvStr s) =>
              match k with
              | QIdent => quote_ident is_print s
              | QString => Some (quote_string is_print s)
              | QBytes => Some (quote_bytes s)
              end
          | _ => None
          end
      | SBool upper f =>
          match assoc f ρ with
          | Some (PvBool b) => Some (if upper then (if b then bs_TRUE else bs_FALSE) else (if b then bs_true else bs_false))
          | _ => None
          end
      | SBad => None
      end
    with eval_b (e : bexp) : option bool :=
      match e with
      | BTrue => Some true
      | BVar x => assoc x bl
      | BNot b => option_map negb (eval_b b)
      | BAnd a b => match eval_b a with Some true => eval_b b | Some false => Some false | None => None end
      | BOr a b => match eval_b a with Some true => Some true | Some false => eval_b b | None => None end
      | BField f => match assoc f ρ with Some (PvBool b) => Some b | _ => None end
      | BPosInvalid f => match assoc f ρ with Some (PvPos p) => Some (p <? 0)%Z | _ => None end
      | BHasPrefix a b => match eval_s a, eval_s b with Some x, Some y => Some (has_prefix x y) | _, _ => None end
      | BLen c f n =>
          match (match assoc f ρ with
                 | Some (PvNodes l) => Some (length l) | Some (PvStr s) => Some (length s) | Some (PvToks l) => Some (length l)
                 | _ => None end) with
          | Some k => Some (match c with CGt => Nat.ltb n k | CEq => Nat.eqb k n | CNe => negb (Nat.eqb k n) end)
          | None => None
          end
      | BNil f => match assoc f ρ with
                  | Some (PvNode None) | Some (PvNilPtr _) => Some true
                  | Some (PvNode (Some _)) => Some false
                  | _ => None
                  end
      | BEqS a b => match eval_s a, eval_s b with Some x, Some y => Some (bytes_eqb x y) | _, _ => None end
      | BIsType f ty => match assoc f ρ with
                        | Some (PvNode (Some c)) => Some (String.eqb (ci_ty c) ty)
                        | Some (PvNode None) | Some (PvNilPtr _) => Some false
                        | _ => None
                        end
      end.
  End Locals.

  Fixpoint eval_body (sl : list (string * bytes)) (bl : list (string * bool)) (b : pbody) : option bytes :=
    match b with
    | BRet s => eval_s sl bl s
    | BLetS x s k => match eval_s sl bl s with Some v => eval_body ((x, v) :: sl) bl k | None => None end
    | BLetB x c k => match eval_b sl bl c with Some v => eval_body sl ((x, v) :: bl) k | None => None end
    | BLetP k => match self_prec with Some _ => eval_body sl bl k | None => None end
    | BIf c a k => match eval_b sl bl c with Some true => eval_body sl bl a | Some false => eval_body sl bl k | None => None end
    | BOpaque => None
    end.

  (* ---- the three hand-modelled bodies ---- *)
  (* BadNode.SQL: raws joined by one blank where the source had whitespace or comments *)
  Definition badnode_sql : option bytes :=
    match assoc "Tokens" ρ with
    | Some (PvToks l) =>
        Some (fold_left (fun sql t => match t with
                                      | TTok _ raw _ _ _ sep =>
                                          ((if negb (match sql with [] => true | _ => false end) && sep then sql ++ [x20] else sql) ++ raw)%list
                                      | _ => sql
                                      end) l [])
    | _ => None
    end.

  (* OptionsDef.SQL: null / true / false in lower case, anything else by its own SQL(); then Name.SQL() + " = " + value *)
  Definition optionsdef_sql : option bytes :=
    let value :=
      match assoc "Value" ρ with
      | Some (PvNode (Some c)) =>
          if String.eqb (ci_ty c) "NullLiteral" then Some [x6e; x75; x6c; x6c]
          else if String.eqb (ci_ty c) "BoolLiteral" then
            match ci_tree c with
            | TNode _ [_; TBool b] => Some (if b then bs_true else bs_false)
            | _ => None
            end
          else ci_sql c
      | _ => None
      end in
    match value, assoc "Name" ρ with
    | Some v, Some (PvNode (Some c)) => match ci_sql c with Some n => Some (n ++ [x20; x3d; x20] ++ v)%list | None => None end
    | Some v, Some (PvNilPtr r) => match r with Some n => Some (n ++ [x20; x3d; x20] ++ v)%list | None => None end
    | _, _ => None
    end.

  (* ChangeStreamForTables.SQL: "FOR " + tables joined by ", " *)
  Definition csft_sql : option bytes :=
    match assoc "Tables" ρ with
    | Some (PvNodes l) => option_map (fun s => [x46; x4f; x52; x20] ++ s)%list (join_sql [x2c; x20] l true)
    | _ => None
    end.

  Definition special_sql (ty : string) : option bytes :=
    if String.eqb ty "BadNode" then badnode_sql
    else if String.eqb ty "OptionsDef" then optionsdef_sql
    else if String.eqb ty "ChangeStreamForTables" then csft_sql
    else None.
End Eval.

Definition hand_modelled : list string := ["BadNode"; "OptionsDef"; "ChangeStreamForTables"].

Definition run_prog (is_print : N -> bool) (prog : list (string * pbody)) (ty : string) (ρ : penv) (self_prec : option nat) : option bytes :=
  match assoc ty prog with
  | Some BOpaque => special_sql ρ ty
  | Some b => eval_body is_print ρ self_prec [] [] b
  | None => None
  end.

Definition prec_of (ptab : list (string * prec_rule)) (ty : string) (ρ : penv) : option nat :=
  match assoc ty ptab with
  | Some (PrFixed n) => Some n
  | Some (PrByField f l) => match assoc f ρ with Some (PvStr s) => assocb s l | _ => None end
  | _ => None
  end.

(* ---------- SQL() of a whole tree, bottom-up ---------- *)
Section Tree.
  Variable is_print : N -> bool.
  Variable sch : schema_t.
  Variable prog : list (string * pbody).
  Variable ptab : list (string * prec_rule).

  Definition pval_of (rec : tree -> cinfo) (k : fkind) (f : tree) : pval :=
    match k, f with
    | KPos, TPos p => PvPos p
    | KBool, TBool b => PvBool b
    | KInt, TInt z => PvInt z
    | KStr, TStr s => PvStr s
    | KToks, TList l => PvToks l
    | KNode _ true, TNil => PvNode None
    | KNode tg false, TNil => PvNilPtr (run_prog is_print prog tg [] (prec_of ptab tg []))
    | KNode _ _, TNode _ _ => PvNode (Some (rec f))
    | KNodes _ _, TList l => PvNodes (map rec l)
    | _, _ => PvBadVal
    end.

  Section Env.
    Variable rec : tree -> cinfo.
    Fixpoint mk_penv (fds : list (string * fkind)) (fs : list tree) {struct fs} : penv :=
      match fs, fds with
      | f :: fs', (n, k) :: fds' => (n, pval_of rec k f) :: mk_penv fds' fs'
      | _, _ => []
      end.
  End Env.

  Fixpoint info (t : tree) : cinfo :=
    match t with
    | TNode ty fs =>
        let ρ := match assoc ty sch with Some fds => mk_penv info fds fs | None => [] end in
        let pr := prec_of ptab ty ρ in
        {| ci_ty := ty; ci_sql := run_prog is_print prog ty ρ pr; ci_prec := pr; ci_tree := t |}
    | _ => {| ci_ty := ""; ci_sql := None; ci_prec := None; ci_tree := t |}
    end.

  Definition sql (t : tree) : option bytes := ci_sql (info t).
End Tree.
