(* Property C17: traversal visits every node exactly once, in source order, with correct paths.
   Model: Tree/Walk.v (hand transcription of ast/walk.go; tie: callback traces compared on every run) +
   Gen/WalkImpl.v / Gen/Schema.v (regenerated; obligation walk_table_checked). *)
From Verif Require Import Tree.Tree Tree.Walk Tree.WalkProofs Tree.Checkers GenChecks.
From Verif Require Import Gen.Schema Gen.WalkImpl.
Local Open Scope string_scope.

(* walkMain with its explicit stack and eager Field/Index calls computes the recursive pre-order traversal
   [spec_node]: for EVERY tree, EVERY visitor (any type, any callbacks) and every global state the callbacks touch;
   it terminates (the size of the tree is enough fuel). *)
Theorem C17_walk_is_recursive_preorder :
  forall (A V St : Type) visit visit_many field index (root : rose A) (v : V) (s : St),
    walk A V St visit visit_many field index root v s = Some (spec_node A V St visit visit_many field index root v s).
Proof. exact walk_correct. Qed.
Print Assumptions C17_walk_is_recursive_preorder.

Theorem C17_walk_many :
  forall (A V St : Type) visit visit_many field index (roots : list (rose A)) (v : V) (s : St),
    walk_many A V St visit visit_many field index roots v s
    = Some (spec_many A V St visit_many index (spec_node A V St visit visit_many field index) roots v s).
Proof. exact walk_many_correct. Qed.
Print Assumptions C17_walk_many.

(* Which nodes, which order, which paths: for the visitor that keeps the Field/Index steps it is handed and decides
   with an arbitrary predicate whether to descend, the Visit calls are exactly [pre keep root []]:
     pre (R a kids) p = (p, a) :: if keep p a then (children in declaration order, slice elements in index order,
                                                     each with path p ++ [Field name] (++ [Index i])) else []
   i.e. every node reachable through kept ancestors exactly once, parents first, siblings in declaration order, with
   its real path; returning nil prunes precisely the subtree. *)
Theorem C17_visits_and_paths :
  forall (A : Type) (keep : path -> A -> bool) (root : rose A),
    walk A path (list (path * A)) (rec_visit A keep) (rec_many A) (rec_field A) (rec_index A) root [] []
    = Some (pre A keep root []).
Proof. exact walk_visits_preorder. Qed.
Print Assumptions C17_visits_and_paths.

(* Inspect = Walk with the inspector adapter *)
Theorem C17_inspect : forall (A St : Type) f (root : rose A) (s : St), inspect A St f root s = Some (inspect_spec A St f root s).
Proof. exact inspect_correct. Qed.
Print Assumptions C17_inspect.

(* Preorder: once the consumer returned false, nothing still on the stack yields anything (the consumer state is final) *)
Theorem C17_preorder_stops :
  forall (A C : Type) (yield : C -> A -> C * bool) c st,
    spec_stack A unit (bool * C) (insp_visit A (bool * C) (pre_f A C yield)) (insp_many A (bool * C))
      (insp_field (bool * C)) (insp_index (bool * C)) (false, c) st = (false, c).
Proof. exact preorder_stopped_stack. Qed.
Print Assumptions C17_preorder_stops.

(* the children of a node in the traversal view are its node-typed fields in declaration order ... *)
Theorem C17_children_are_node_fields : forall rec fds fs, length fs = length fds ->
  map (fun k => (fst (fst k), snd (fst k))) (kids_by_schema rec fds fs) = node_fields fds.
Proof. exact kids_by_schema_fields. Qed.
Print Assumptions C17_children_are_node_fields.

(* ... and for the CURRENT source the generated walkInternal pushes exactly those, reversed, with their own names *)
Theorem C17_generated_switch :
  forall ty fds, assoc ty schema = Some fds ->
  exists l, assoc ty walk_impl = Some (WPushes l) /\
            map (fun '(f, m, lbl) => (f, m)) (rev l) = node_fields fds /\
            Forall (fun '(f, m, lbl) => lbl = f) l.
Proof. exact (walk_table_sound schema walk_impl walk_table_checked). Qed.
Print Assumptions C17_generated_switch.

(* non-vacuity: a small tree, a pruning visitor *)
Example C17_example :
  let t := R 1 [("X", false, [R 2 [("L", true, [R 3 []; R 4 []])]]); ("Y", false, []); ("Z", true, [R 5 []])] in
  walk nat path (list (path * nat)) (rec_visit nat (fun _ a => negb (Nat.eqb a 3))) (rec_many nat) (rec_field nat) (rec_index nat) t [] []
  = Some [([], 1); ([SField "X"], 2); ([SField "X"; SField "L"; SIndex 0], 3); ([SField "X"; SField "L"; SIndex 1], 4);
          ([SField "Z"; SIndex 0], 5)].
Proof. vm_compute. reflexivity. Qed.
