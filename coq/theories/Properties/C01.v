(* Property C01: parse -> unparse -> parse is stable.
   This file: the printer-side theorems that hold for ALL node types (the parser side is proved on the expression fragment in
   Properties/C07.v / Parse/*, and sampled on the implementation for the remaining productions). *)
From Verif Require Import Tree.Tree Bytes.Quote Tree.Printer Tree.Checkers Tree.PrinterProofs GenChecks.
From Verif Require Import Gen.Schema Gen.PrintProg.
Local Open Scope string_scope.

(* A field that a node's SQL() program does not read cannot influence the text: two receivers agreeing on the fields read
   unparse identically.  So an unread field that the parser fills is lost by unparsing, i.e. a guaranteed round-trip failure. *)
Theorem C01_sql_depends_only_on_read_fields : forall ip prog ty b ρ ρ' sp,
  assoc ty prog = Some b -> b <> BOpaque ->
  (forall f, In f (used_fields prog ty) -> assoc f ρ = assoc f ρ') ->
  run_prog ip prog ty ρ sp = run_prog ip prog ty ρ' sp.
Proof. exact sql_ignores_unread_fields. Qed.
Print Assumptions C01_sql_depends_only_on_read_fields.

(* For the CURRENT source: every field that is not a bare position is read by its node's SQL(), except the derived fields
   (justified in DESIGN.md) and the recorded finding Join.Method (known_findings.json) *)
Theorem C01_every_semantic_field_is_printed :
  forall ty f, In (ty, f) (unread_fields schema sql_prog) -> (ty, f) = ("Join", "Method").
Proof.
  intros ty f H. pose proof unread_fields_checked as C. rewrite forallb_forall in C.
  specialize (C _ H). apply pair_mem_in in C. destruct C as [C|[]]. symmetry. exact C.
Qed.
Print Assumptions C01_every_semantic_field_is_printed.

(* the finding is real: the program of Join never reads Method *)
Theorem C01_join_method_refuted : In ("Join", "Method") (unread_fields schema sql_prog).
Proof. vm_compute. auto. Qed.

(* every list separator printed by sqlJoin separates tokens (an empty or gluing separator merges list elements) *)
Theorem C01_list_separators_separate : bad_separators sql_prog = [].
Proof. exact separators_checked. Qed.
Print Assumptions C01_list_separators_separate.

(* ---- the expression fragment: the composition parse o lex o SQL, for all canonical operator-core trees of any depth ---- *)
From Verif Require Import Base.Bytes Parse.ExprModel Parse.ExprFacts Parse.Spell Parse.RoundTrip Parse.Respell Parse.Canon Parse.Render.

(* on EVERY tree of the expression fragment (19 node types) the GENERATED SQL() programs compute the simple recursive function
   [render] (None = Go panics: operator string not in exprPrec's table, empty identifier), whatever unicode.IsPrint is *)
Theorem C01_generated_printer_on_fragment : forall (is_print : N -> bool) (e : expr),
  sql is_print schema sql_prog prec_table (to_tree e) = render is_print e.
Proof. intros ip e. unfold sql. rewrite info_to_tree. reflexivity. Qed.
Print Assumptions C01_generated_printer_on_fragment.

(* positions never influence the printed text *)
Theorem C01_printer_ignores_positions : forall (is_print : N -> bool) (e : expr), render is_print (strip e) = render is_print e.
Proof. exact render_strip. Qed.
Print Assumptions C01_printer_ignores_positions.

(* parse o lex o SQL on the operator core: for every canonical tree e (any depth), if the tokens obtained by lexing the printed text
   agree with the canonical spelling in kinds, values and literal text (hypothesis evaluated by the check on the real lexer's
   output for every enumerated tree: same_tokensb), then the parser gives back e up to positions and prints the same text *)
Theorem C01_fragment_roundtrip : forall (is_print : N -> bool) (e : expr) (ts : toks),
  can 12 e -> same_tokens (spell e ++ [eof_tok]) ts ->
  exists f e' r, P f (MBin BOr) ts = Ok (e', r) /\ strip e' = e /\ same_tokens [eof_tok] r /\
                 render is_print e' = render is_print e /\
                 sql is_print schema sql_prog prec_table (to_tree e') = sql is_print schema sql_prog prec_table (to_tree e).
Proof. exact fragment_roundtrip. Qed.
Print Assumptions C01_fragment_roundtrip.

(* both hypotheses are decidable *)
Theorem C01_canonical_is_checkable : forall n e, canb n e = true -> can n e.
Proof. exact canb_ok. Qed.
Print Assumptions C01_canonical_is_checkable.

(* ---- the type grammar (ParseType), whole: Parse/TypeModel.v (parser), Parse/TypeRender.v (printer), Parse/TypeRoundTrip.v ---- *)
From Verif Require Import Parse.TypeModel Parse.TypeProofs Parse.TypeRespell Parse.TypeRender Parse.TypeRoundTrip.

(* on every type tree the GENERATED SQL() programs compute the recursive function render_ty *)
Theorem C01_generated_printer_on_types : forall is_print t, sql is_print schema sql_prog prec_table (ty_tree t) = render_ty is_print t.
Proof. exact sql_ty. Qed.
Print Assumptions C01_generated_printer_on_types.

(* every well-formed type tree, spelled from its shape, is a sentence of the type grammar, for a tree that differs in positions only *)
Theorem C01_type_spelling_is_a_sentence : forall t, wf_tyb t = true -> forall K, okK K ->
  exists t0, Tr t0 (zspell t ++ K) K /\ erase_ty (fun b => b) t0 = erase_ty (fun b => b) t.
Proof. exact zspell_Tr. Qed.
Print Assumptions C01_type_spelling_is_a_sentence.

(* the composition: if the tokens lexed from the printed text agree with the spelling of the tree -- every ">>" read as two closing
   brackets; the hypothesis is decidable and evaluated with the real lexer on every accepted type input of every run -- the entry point
   accepts them, returns the tree up to positions, and printing the result gives the same text *)
Theorem C01_type_roundtrip : forall is_print t ts, wf_tyb t = true -> same_type_tokens (zspell t ++ [eof_tok])%list (unfuse ts) ->
  exists t' e', parse_type ts = Ok (t', [e']) /\ erase_ty (fun b => b) t' = erase_ty (fun b => b) t /\
                render_ty is_print t' = render_ty is_print t /\
                sql is_print schema sql_prog prec_table (ty_tree t') = sql is_print schema sql_prog prec_table (ty_tree t).
Proof. exact type_roundtrip. Qed.
Print Assumptions C01_type_roundtrip.

Theorem C01_type_hypothesis_is_checkable : forall a b, same_type_tokensb a b = true -> same_type_tokens a b.
Proof. exact same_type_tokensb_ok. Qed.
Print Assumptions C01_type_hypothesis_is_checkable.
