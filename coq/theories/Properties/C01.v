(* Property C01: parse -> unparse -> parse is stable.
   This file: the printer-side theorems that hold for ALL node types (the parser side is proved on the expression fragment in
   Properties/C07.v / Parse/*, and sampled on the implementation for the remaining productions). *)
From Verif Require Import Tree.Tree Bytes.Quote Tree.Printer Tree.Checkers Tree.PrinterProofs GenChecks.
From Verif Require Import Gen.Schema Gen.PrintProg.
Local Open Scope string_scope.

(* A field that a node's SQL() program does not read cannot influence the text: two receivers agreeing on the fields read
   unparse identically.  So an unread field that the parser fills is lost by unparsing, i.e. a guaranteed round-trip failure. *)
Theorem C01_sql_depends_only_on_read_fields : forall ip prog ty b ρ ρ' sp,
  assoc ty prog = Some b -> b <> BOpaque ->
  (forall f, In f (used_fields prog ty) -> assoc f ρ = assoc f ρ') ->
  run_prog ip prog ty ρ sp = run_prog ip prog ty ρ' sp.
Proof. exact sql_ignores_unread_fields. Qed.
Print Assumptions C01_sql_depends_only_on_read_fields.

(* For the CURRENT source: every field that is not a bare position is read by its node's SQL(), except the derived fields
   (justified in DESIGN.md) and the recorded finding Join.Method (known_findings.json) *)
Theorem C01_every_semantic_field_is_printed :
  forall ty f, In (ty, f) (unread_fields schema sql_prog) -> (ty, f) = ("Join", "Method").
Proof.
  intros ty f H. pose proof unread_fields_checked as C. rewrite forallb_forall in C.
  specialize (C _ H). apply pair_mem_in in C. destruct C as [C|[]]. symmetry. exact C.
Qed.
Print Assumptions C01_every_semantic_field_is_printed.

(* the finding is real: the program of Join never reads Method *)
Theorem C01_join_method_refuted : In ("Join", "Method") (unread_fields schema sql_prog).
Proof. vm_compute. auto. Qed.

(* every list separator printed by sqlJoin separates tokens (an empty or gluing separator merges list elements) *)
Theorem C01_list_separators_separate : bad_separators sql_prog = [].
Proof. exact separators_checked. Qed.
Print Assumptions C01_list_separators_separate.
