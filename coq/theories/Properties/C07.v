(* Property C07: operator precedence and associativity follow the GoogleSQL table.
   Reference side: Parse/Spell.v (the table, canonical trees, spelling) -- written from the documentation.
   Parser side:    Parse/ExprModel.v -- transcription of parseExpr ... parseLit, tied to ParseExpr by a correspondence over the
                   property's own enumeration (all operator trees with <= 3 / 4 operators in minimal and full spelling) on every run.
   Printer side:   exprPrec regenerated from ast/sql.go (obligation prec_agrees_checked). *)
From Verif Require Import Base.Bytes Tree.Tree Tree.Printer Parse.ExprModel Parse.ExprFacts Parse.Spell Parse.RoundTrip GenChecks.
From Verif Require Import Gen.PrintProg Parse.Canon.

(* For EVERY canonical tree -- any depth, any mix of the 20 binary operators at their 9 levels, IS [NOT] NULL/TRUE/FALSE, [NOT] BETWEEN,
   [NOT] IN (list) / IN UNNEST, NOT, unary + - ~ (with the sign folding of numeric literals), field access x.f (a dotted name being one
   Path node), subscripts x[i] and x[OFFSET(i)] / ORDINAL / SAFE_OFFSET / SAFE_ORDINAL, tuples (e1, e2, ...), parenthesised
   sub-expressions, identifiers, parameters and literals -- the spelling that adds no
   parenthesis parses back to exactly that tree and consumes exactly its tokens.  In particular: * / || bind tighter than + -, then
   << >>, &, ^, |, then the comparison operators (non-associative: both operands one level tighter), then NOT, AND, OR; binary
   operators group to the left; an explicit parenthesis survives as a ParenExpr around exactly the parenthesised operand. *)
Theorem C07_parse_of_spelling : forall e, can 12 e -> Parses (MBin BOr) (spell e ++ [eof_tok]) (e, [eof_tok]).
Proof. exact parse_spell. Qed.
Print Assumptions C07_parse_of_spelling.

(* the same with the fuel the extracted model runs with *)
Theorem C07_parse_expr_of_spelling : forall e, can 12 e ->
  parse_expr (spell e ++ [eof_tok]) = Ok (e, [eof_tok]) \/ parse_expr (spell e ++ [eof_tok]) = Fuel.
Proof. exact parse_expr_spell. Qed.
Print Assumptions C07_parse_expr_of_spelling.

(* no other grouping can come out, whatever the amount of fuel *)
Theorem C07_grouping_unique : forall e e' rest f, can 12 e -> P f (MBin BOr) (spell e ++ [eof_tok]) = Ok (e', rest) -> e' = e /\ rest = [eof_tok].
Proof. exact grouping_unique. Qed.
Print Assumptions C07_grouping_unique.

(* a tree canonical at level n has a root operator of level <= n: paren(n, operand) of the printer adds no parenthesis ... *)
Theorem C07_canonical_needs_no_parenthesis : forall n e, can n e -> root_level e <= n.
Proof. exact can_root_level. Qed.
Print Assumptions C07_canonical_needs_no_parenthesis.

(* ... because the CURRENT exprPrec returns exactly the table's level for every operator and node type of the fragment *)
Theorem C07_exprPrec_is_the_table : prec_agrees prec_table = true.
Proof. exact prec_agrees_checked. Qed.
Print Assumptions C07_exprPrec_is_the_table.

(* results do not depend on the amount of fuel once there is enough *)
Theorem C07_fuel_monotone : forall f f' m ts, (f <= f')%nat -> P f m ts <> Fuel -> P f' m ts = P f m ts.
Proof. exact P_mono. Qed.
Print Assumptions C07_fuel_monotone.

(* field access and subscripts bind tighter than every operator, and group to the left: - a.b[1].c[OFFSET(2)] * (1, x).y *)
Example C07_postfix_binds_tightest :
  let a := zident (bs "a") in let b := zident (bs "b") in let one := EInt 0 0 10 (bs "1") in
  let e := EBinary (bs "*")
             (EUnary 0 (bs "-") (EIndex 0 (ESelector (EIndex 0 (EPath [a; b]) (SExprArg one)) (zident (bs "c")))
                                          (SKeyword 0 0 (bs "OFFSET") (EInt 0 0 10 (bs "2")))))
             (ESelector (ETuple 0 0 [one; EIdent (zident (bs "x"))]) (zident (bs "y"))) in
  can 12 e /\ parse_expr (spell e ++ [eof_tok]) = Ok (e, [eof_tok]).
Proof. split; [apply canb_ok; vm_compute; reflexivity|vm_compute; reflexivity]. Qed.

(* non-associativity of the comparison family: a = b = c is not accepted as one expression (the second '=' is left over) *)
Example C07_comparison_is_non_associative :
  parse_expr [t_ident (bs "a"); tk "="; t_ident (bs "b"); tk "="; t_ident (bs "c"); eof_tok]
  = Ok (EBinary (bs "=") (EIdent (zident (bs "a"))) (EIdent (zident (bs "b"))), [tk "="; t_ident (bs "c"); eof_tok]).
Proof. vm_compute. reflexivity. Qed.
