(* Property C11: statement lists compose -- ParseStatements == ParseStatement per raw statement.
   Model: Parse/ListLoop.v, the generic list loop parseStatements and the entry points, over the token list, with the statement
   parser doParse as a parameter.  Tie: the Go lexemes of these function bodies are regenerated from parser.go on every run and
   must equal the text the model transcribes (list_loop_checked).
   The theorem isolates what C11 needs of the statement parser: on each piece it must behave the same whatever follows the
   terminator (';' + more input, or <eof>) and must not consume the terminator (local).  Given that, for EVERY token list: the list
   entry point reports no error iff every non-empty piece is accepted on its own, and then returns exactly the stand-alone results,
   empty statements being skipped.  Whether the real statement parsers are local is what the implementation-level oracle samples
   (ParseStatements / ParseDDLs / ParseDMLs against SplitRawStatements + ParseStatement / ParseDDL / ParseDML). *)
From Coq Require Import String.
From Verif Require Import Base.Bytes Tree.Tree Parse.ExprModel Parse.ListLoop GenChecks.
Local Open Scope nat_scope.

Theorem C11_list_loop_composes : forall (stmt : Type) (sp : toks -> stmt * toks * nat) (e : ptok), is_eof e = true ->
  forall segs lastp,
    Forall (fun ps => Forall plain (fst ps) /\ is_semi (snd ps) = true /\ (fst ps <> [] -> local stmt sp (fst ps))) segs ->
    Forall plain lastp -> (lastp <> [] -> local stmt sp lastp) ->
    let '(ns, errs) := parse_many stmt sp (flatten segs ++ lastp ++ [e]) in
    (errs = 0 <-> Forall (ok stmt sp e) (nonempty (pieces segs lastp))) /\
    (errs = 0 -> ns = map (res stmt sp e) (nonempty (pieces segs lastp))).
Proof. exact parse_many_composes. Qed.
Print Assumptions C11_list_loop_composes.

(* the loop itself, any accumulator, any sufficient fuel *)
Theorem C11_loop_invariant : forall (stmt : Type) (sp : toks -> stmt * toks * nat) (e : ptok), is_eof e = true ->
  forall segs lastp,
    Forall (fun ps => Forall plain (fst ps) /\ is_semi (snd ps) = true /\ (fst ps <> [] -> local stmt sp (fst ps))) segs ->
    Forall plain lastp -> (lastp <> [] -> local stmt sp lastp) ->
    forall fuel racc errs, 2 * length (flatten segs ++ lastp ++ [e]) + 1 <= fuel ->
    let '(ns, rest, er) := stmts stmt sp fuel (flatten segs ++ lastp ++ [e]) racc errs in
    let tot := er + (if is_eof (cur rest) then 0 else 1) in
    (tot = 0 <-> errs = 0 /\ Forall (ok stmt sp e) (nonempty (pieces segs lastp))) /\
    (tot = 0 -> ns = rev racc ++ map (res stmt sp e) (nonempty (pieces segs lastp))).
Proof. exact list_loop_composes. Qed.
Print Assumptions C11_loop_invariant.

(* the tie: parser.go's parseStatements / ParseStatements / ParseDDLs / ParseDMLs / ParseStatement / ParseDDL / ParseDML are, lexeme for
   lexeme, the functions transcribed by the model *)
Theorem C11_model_is_the_source : Gen.ListLoop.list_loop_bodies = Parse.ListLoop.expected_bodies.
Proof. exact list_loop_checked. Qed.
Print Assumptions C11_model_is_the_source.

(* non-vacuity: a statement parser that takes one token per statement and records an error when it is not an identifier; the input
   ; a ; ; 1 ; b <eof>  -- pieces [a] [] [] [1] [b] *)
Definition tk (k : string) (p : Z) : ptok := {| pk := bs k; praw := []; pstr := []; ppos := p; pend := p; pbase := 0 |}.
Definition toy (ts : toks) : nat * toks * nat := (Z.to_nat (ppos (cur ts)), next ts, if kis (cur ts) K_ident then 0 else 1).
Example C11_example :
  parse_many nat toy [tk ";" 0; tk "<ident>" 1; tk ";" 2; tk ";" 3; tk "<int>" 4; tk ";" 5; tk "<ident>" 6; tk "<eof>" 7] = ([1; 4; 6], 1)
  /\ parse_many nat toy [tk ";" 0; tk "<ident>" 1; tk ";" 2; tk ";" 3; tk "<ident>" 4; tk "<eof>" 7] = ([1; 4], 0).
Proof. vm_compute. split; reflexivity. Qed.
