(* Property C11: statement lists compose -- ParseStatements == ParseStatement per raw statement.
   Model: Parse/ListLoop.v, the generic list loop parseStatements and the entry points, over the token list, with the statement
   parser doParse as a parameter.  Tie: the Go lexemes of these function bodies are regenerated from parser.go on every run and
   must equal the text the model transcribes (list_loop_checked).
   The theorem isolates what C11 needs of the statement parser: on each piece it must behave the same whatever follows the
   terminator (';' + more input, or <eof>) and must not consume the terminator (local).  Given that, for EVERY token list: the list
   entry point reports no error iff every non-empty piece is accepted on its own, and then returns exactly the stand-alone results,
   empty statements being skipped.  Whether the real statement parsers are local is what the implementation-level oracle samples
   (ParseStatements / ParseDDLs / ParseDMLs against SplitRawStatements + ParseStatement / ParseDDL / ParseDML). *)
From Coq Require Import String.
From Verif Require Import Base.Bytes Tree.Tree Parse.ExprModel Parse.ListLoop GenChecks.
Local Open Scope nat_scope.

Theorem C11_list_loop_composes : forall (stmt : Type) (sp : toks -> stmt * toks * nat) (e : ptok), is_eof e = true ->
  forall segs lastp,
    Forall (fun ps => Forall plain (fst ps) /\ is_semi (snd ps) = true /\ (fst ps <> [] -> local stmt sp (fst ps))) segs ->
    Forall plain lastp -> (lastp <> [] -> local stmt sp lastp) ->
    let '(ns, errs) := parse_many stmt sp (flatten segs ++ lastp ++ [e]) in
    (errs = 0 <-> Forall (ok stmt sp e) (nonempty (pieces segs lastp))) /\
    (errs = 0 -> ns = map (res stmt sp e) (nonempty (pieces segs lastp))).
Proof. exact parse_many_composes. Qed.
Print Assumptions C11_list_loop_composes.

(* the loop itself, any accumulator, any sufficient fuel *)
Theorem C11_loop_invariant : forall (stmt : Type) (sp : toks -> stmt * toks * nat) (e : ptok), is_eof e = true ->
  forall segs lastp,
    Forall (fun ps => Forall plain (fst ps) /\ is_semi (snd ps) = true /\ (fst ps <> [] -> local stmt sp (fst ps))) segs ->
    Forall plain lastp -> (lastp <> [] -> local stmt sp lastp) ->
    forall fuel racc errs, 2 * length (flatten segs ++ lastp ++ [e]) + 1 <= fuel ->
    let '(ns, rest, er) := stmts stmt sp fuel (flatten segs ++ lastp ++ [e]) racc errs in
    let tot := er + (if is_eof (cur rest) then 0 else 1) in
    (tot = 0 <-> errs = 0 /\ Forall (ok stmt sp e) (nonempty (pieces segs lastp))) /\
    (tot = 0 -> ns = rev racc ++ map (res stmt sp e) (nonempty (pieces segs lastp))).
Proof. exact list_loop_composes. Qed.
Print Assumptions C11_loop_invariant.

(* the tie: parser.go's parseStatements / ParseStatements / ParseDDLs / ParseDMLs / ParseStatement / ParseDDL / ParseDML are, lexeme for
   lexeme, the functions transcribed by the model *)
Theorem C11_model_is_the_source : Gen.ListLoop.list_loop_bodies = Parse.ListLoop.expected_bodies.
Proof. exact list_loop_checked. Qed.
Print Assumptions C11_model_is_the_source.

(* non-vacuity: a statement parser that takes one token per statement and records an error when it is not an identifier; the input
   ; a ; ; 1 ; b <eof>  -- pieces [a] [] [] [1] [b] *)
Definition tk (k : string) (p : Z) : ptok := {| pk := bs k; praw := []; pstr := []; ppos := p; pend := p; pbase := 0 |}.
Definition toy (ts : toks) : nat * toks * nat := (Z.to_nat (ppos (cur ts)), next ts, if kis (cur ts) K_ident then 0 else 1).
Example C11_example :
  parse_many nat toy [tk ";" 0; tk "<ident>" 1; tk ";" 2; tk ";" 3; tk "<int>" 4; tk ";" 5; tk "<ident>" 6; tk "<eof>" 7] = ([1; 4; 6], 1)
  /\ parse_many nat toy [tk ";" 0; tk "<ident>" 1; tk ";" 2; tk ";" 3; tk "<ident>" 4; tk "<eof>" 7] = ([1; 4], 0).
Proof. vm_compute. split; reflexivity. Qed.

(* ---- a family of statements for which NOTHING is left to a hypothesis: the twenty-four DDL statements of Parse/StmtModel.v (DROP ... , ANALYZE,
   CREATE SCHEMA / DATABASE / ROLE, RENAME TABLE, GRANT, REVOKE, CREATE / ALTER PROTO BUNDLE, ALTER INDEX, ALTER SEARCH INDEX -- the last seven
   with comma-separated lists, optional clauses and look-ahead), modelled whole with the recover points of parseDDL and parseStatementInternal, tied to ParseDDL, ParseStatement,
   ParseDDLs and ParseStatements by the correspondence of every run.  Locality -- the one hypothesis of the list-loop theorem -- is PROVED for
   them (Parse/StmtProofs.v): whatever follows the terminator, the statement parser (accepting or recovering) returns the same node, records the
   same number of errors and stops at the same place, never beyond the terminator.  Hence, for every list whose pieces are statements of the
   family -- accepted or rejected, with empty statements anywhere -- and whatever the rest of the parser ([other]) does elsewhere: the list
   entry point reports no error iff every non-empty piece is accepted alone, and then returns exactly the stand-alone results ---- *)
From Verif Require Import Parse.StmtModel Parse.StmtProofs.

Theorem C11_ddl_statements_are_local : forall p, p <> [] -> Forall plainT p -> local_opt sp_ddl p.
Proof. exact sp_ddl_local. Qed.
Print Assumptions C11_ddl_statements_are_local.

Theorem C11_statements_are_local : forall p, p <> [] -> Forall plainT p -> local_opt sp_stmt p.
Proof. exact sp_stmt_local. Qed.
Print Assumptions C11_statements_are_local.

(* ParseDDLs on lists of family statements *)
Theorem C11_ddl_lists_compose : forall other e, is_eof e = true -> forall segs lastp,
    Forall (fun ps => Forall plain (fst ps) /\ is_semi (snd ps) = true /\ (fst ps <> [] -> in_family sp_ddl e (fst ps))) segs ->
    Forall plain lastp -> (lastp <> [] -> in_family sp_ddl e lastp) ->
    let '(ns, errs) := parse_many dnode (spT other sp_ddl) (flatten segs ++ lastp ++ [e]) in
    (errs = 0 <-> Forall (ok dnode (spT other sp_ddl) e) (nonempty (pieces segs lastp))) /\
    (errs = 0 -> ns = map (res dnode (spT other sp_ddl) e) (nonempty (pieces segs lastp))).
Proof. intros other e E. exact (family_lists_compose other sp_ddl sp_ddl_local e E). Qed.
Print Assumptions C11_ddl_lists_compose.

(* ParseStatements on lists of family statements *)
Theorem C11_statement_lists_compose : forall other e, is_eof e = true -> forall segs lastp,
    Forall (fun ps => Forall plain (fst ps) /\ is_semi (snd ps) = true /\ (fst ps <> [] -> in_family sp_stmt e (fst ps))) segs ->
    Forall plain lastp -> (lastp <> [] -> in_family sp_stmt e lastp) ->
    let '(ns, errs) := parse_many dnode (spT other sp_stmt) (flatten segs ++ lastp ++ [e]) in
    (errs = 0 <-> Forall (ok dnode (spT other sp_stmt) e) (nonempty (pieces segs lastp))) /\
    (errs = 0 -> ns = map (res dnode (spT other sp_stmt) e) (nonempty (pieces segs lastp))).
Proof. intros other e E. exact (family_lists_compose other sp_stmt sp_stmt_local e E). Qed.
Print Assumptions C11_statement_lists_compose.

(* non-vacuity: DROP TABLE t ; ; DROP 1 ; ANALYZE -- three statements, one of them a BadDDL holding its two tokens, one error *)
Example C11_family_example :
  let tkz (k : string) (p : Z) (n : Z) := {| pk := bs k; praw := bs k; pstr := []; ppos := p; pend := (p + n)%Z; pbase := 0 |} in
  let idz (s : string) (p : Z) := {| pk := bs K_ident; praw := bs s; pstr := bs s; ppos := p; pend := (p + Z.of_nat (String.length s))%Z; pbase := 0 |} in
  let one := {| pk := bs K_int; praw := bs "1"%string; pstr := []; ppos := 21%Z; pend := 22%Z; pbase := 10%Z |} in
  let ts := [idz "DROP"%string 0; idz "TABLE"%string 5; idz "t"%string 11; tkz ";"%string 12 1; tkz ";"%string 14 1; idz "DROP"%string 16; one; tkz ";"%string 23 1; idz "ANALYZE"%string 25; tkz K_eof 32 0]%Z in
  parse_many dnode (spT (fun ts => (DNode "?"%string [], ts, 0)) sp_ddl) ts =
    ([DNode "DropTable"%string [FPos 0; FBool false; FPath [{| id_pos := 11; id_end := 12; id_name := bs "t"%string |}]];
      DBad false 16 22 [idz "DROP"%string 16%Z; one];
      DNode "Analyze"%string [FPos 25]]%Z, 1%nat).
Proof. vm_compute. reflexivity. Qed.

(* non-vacuity with lists and look-ahead: GRANT SELECT ( a ) , DELETE ON TABLE t TO ROLE r ; RENAME TABLE a TO b , c ; -- the second statement
   fails inside its list and becomes a BadDDL holding its seven tokens *)
Example C11_family_example_lists :
  let tkz (k : string) (p : Z) (n : Z) := {| pk := bs k; praw := bs k; pstr := []; ppos := p; pend := (p + n)%Z; pbase := 0 |} in
  let idz (s : string) (p : Z) := {| pk := bs K_ident; praw := bs s; pstr := bs s; ppos := p; pend := (p + Z.of_nat (String.length s))%Z; pbase := 0 |} in
  let idn (s : string) (p : Z) := {| id_pos := p; id_end := (p + Z.of_nat (String.length s))%Z; id_name := bs s |} in
  let st2 := [idz "RENAME"%string 50; idz "TABLE"%string 57; idz "a"%string 63; tkz "TO"%string 65 2; idz "b"%string 68; tkz ","%string 70 1; idz "c"%string 72]%Z in
  let ts := ([idz "GRANT"%string 0; tkz "SELECT"%string 6 6; tkz "("%string 13 1; idz "a"%string 14; tkz ")"%string 15 1; tkz ","%string 17 1; idz "DELETE"%string 19;
             tkz "ON"%string 26 2; idz "TABLE"%string 29; idz "t"%string 35; tkz "TO"%string 37 2; idz "ROLE"%string 40; idz "r"%string 45; tkz ";"%string 47 1]
            ++ st2 ++ [tkz ";"%string 74 1; tkz K_eof 75 0])%Z%list in
  parse_many dnode (spT (fun ts => (DNode "?"%string [], ts, 0)) sp_stmt) ts =
    ([DNode "Grant"%string [FPos 0; FSub "PrivilegeOnTable"%string [FSubs [FSub "SelectPrivilege"%string [FPos 6; FPos 15; FIdents [idn "a"%string 14]];
                                                                        FSub "DeletePrivilege"%string [FPos 19]];
                                                                 FIdents [idn "t"%string 35]];
                            FIdents [idn "r"%string 45]];
      DBad false 50 73 st2]%Z, 1%nat).
Proof. vm_compute. reflexivity. Qed.

(* parseCommaSeparatedList is local for ANY local item parser: two inputs that share a part (of length m) and continue with terminator-headed
   rests give the same list and stop at the same place of the shared part, provided each item parser does so and consumes at least one shared
   token -- whatever the amounts of fuel, which only have to exceed the shared length ([reln] / [rreln]: Parse/StmtProofs.v) *)
Theorem C11_comma_separated_lists_are_local : forall (p k1 k2 : toks), theaded k1 -> theaded k2 ->
  forall (A : Type) (item : toks -> ExprModel.res (A * toks)),
    (forall m ts1 ts2, reln p k1 k2 m ts1 ts2 -> rreln p k1 k2 1 m (item ts1) (item ts2)) ->
    forall m ts1 ts2, reln p k1 k2 m ts1 ts2 -> rreln p k1 k2 1 m (comma_list item ts1) (comma_list item ts2).
Proof. intros p k1 k2 T1 T2 A item H. exact (comma_list_reln p k1 k2 T1 T2 item H). Qed.
Print Assumptions C11_comma_separated_lists_are_local.
