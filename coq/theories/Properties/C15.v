(* Property C15: the quoting functions are right inverses of lexing.
   Model: Bytes/Quote.v (token/quote.go) and Lex/Lexer.v (lexer.go), both tied to the code by exhaustive/sampled correspondence.
   unicode.IsPrint is universally quantified: the theorems hold for every predicate on code points.
   tok1 k buf str = the token of kind k, Raw = buf, AsString = str, no comments, no space, Pos 0, End len(buf). *)
From Verif Require Import Base.Bytes Base.Utf8 Gen.Keywords Lex.Lexer Bytes.Quote Bytes.QuoteProofs.

(* for every string s (any bytes, valid UTF-8 or not): QuoteSQLString(s) lexes as exactly one string token, then <eof>, value s *)
Theorem C15_string : forall (is_print : N -> bool) (s : bytes),
  lex_all (quote_string is_print s) = LOk [tok1 K_string (quote_string is_print s) s; tok_eof (length (quote_string is_print s))].
Proof. exact quote_string_lexes. Qed.
Print Assumptions C15_string.

(* for every byte slice b: QuoteSQLBytes(b) lexes as exactly one bytes token whose value is b *)
Theorem C15_bytes : forall (b : bytes),
  lex_all (quote_bytes b) = LOk [tok1 K_bytes (quote_bytes b) b; tok_eof (length (quote_bytes b))].
Proof. exact quote_bytes_lexes. Qed.
Print Assumptions C15_bytes.

(* for every non-empty s: QuoteSQLIdent(s) lexes as exactly one identifier token named s *)
Theorem C15_ident : forall (is_print : N -> bool) (s : bytes), s <> [] ->
  exists q, quote_ident is_print s = Some q /\ lex_all q = LOk [tok1 K_ident q s; tok_eof (length q)].
Proof. exact quote_ident_lexes. Qed.
Print Assumptions C15_ident.

(* ... and it is returned unquoted only if s is not a reserved keyword and is already identifier-shaped *)
Theorem C15_ident_unquoted_only_if : forall (is_print : N -> bool) (s q : bytes),
  quote_ident is_print s = Some q -> (exists t, q = bq :: t) \/ (q = s /\ is_keyword s = false /\ ident_shaped s).
Proof. exact quote_ident_unquoted_only_if. Qed.
Print Assumptions C15_ident_unquoted_only_if.

(* the decoder half used above, for all inputs: DecodeRune accepts only valid runes and EncodeRune restores the bytes read *)
Theorem C15_utf8_roundtrip : forall s r size,
  decode_rune s = (r, size) -> s <> [] -> (r =? rune_error)%N && (size =? 1)%nat = false ->
  valid_rune r = true /\ encode_rune r = firstn size s.
Proof. exact decode_valid. Qed.
Print Assumptions C15_utf8_roundtrip.

(* non-vacuity: a value with both quotes, a backslash, a newline, a control character, an invalid byte, a 2-, 3- and 4-byte rune *)
Example C15_example :
  let s := [x27; x22; x5c; x0a; x01; xff; xc3; xa9; xe2; x80; x8b; xf0; x9f; x98; x80] in
  quote_string (fun r => N.leb 32 r && negb (N.eqb r 8203)) s =
    bs """'\""\\\n\x01\xff" ++ [xc3; xa9] ++ bs "\u200b" ++ [xf0; x9f; x98; x80] ++ bs """"
  /\ quote_ident (fun _ => true) (bs "select") = Some (bs "`select`").
Proof. vm_compute. split; reflexivity. Qed.
