(* Property C15 (placeholder while the proofs are being written): statements only about the model. *)
From Verif Require Import Base.Bytes Base.Utf8 Gen.Keywords Lex.Lexer Bytes.Quote.
