(* Property C20: reported error positions resolve to the right line, column and excerpt.
   Only statements; every proof is `exact <lemma>`.  Model: Bytes/FileModel.v (tie: correspondence). *)
From Verif Require Import Base.Bytes Bytes.FileModel Bytes.FileProofs.
Local Open Scope nat_scope.

(* ResolvePos: line = number of newline bytes before pos; column = distance from the line start,
   where the line start s is characterised independently: s <= pos, s = 0 or b[s-1] = '\n',
   and no newline in b[s..pos). *)
Theorem C20_resolve_line_col : forall (b : bytes) (pos : nat),
  pos <= length b ->
  resolve_pos b (Z.of_nat pos) =
    (Z.of_nat (count_byte nl (firstn pos b)), Z.of_nat (pos - spec_start b pos)) /\
  (let s := spec_start b pos in
   s <= pos /\ (s = 0 \/ nth_error b (s - 1) = Some nl) /\
   (forall i, s <= i -> i < pos -> nth_error b i <> Some nl)).
Proof.
  intros b pos H. split.
  - rewrite <- spec_line_count. exact (resolve_pos_spec b pos H).
  - exact (spec_start_spec b pos H).
Qed.
Print Assumptions C20_resolve_line_col.

(* File.Position never panics for 0 <= pos <= end <= len *)
Theorem C20_position_total : forall (b : bytes) (pos end_ : nat),
  pos <= end_ -> end_ <= length b -> position_of b (Z.of_nat pos) (Z.of_nat end_) <> None.
Proof. exact position_total. Qed.
Print Assumptions C20_position_total.

(* the excerpt quotes exactly the lines from pos's line to end's line; line_text is the l-th piece of
   the text between newline bytes (split_nl_join / split_nl_no_nl pin that notion down) *)
Theorem C20_split_is_split : forall b, join_nl (split_nl b) = b /\ Forall (fun l => ~ In nl l) (split_nl b).
Proof. intro b. split; [exact (split_nl_join b) | exact (split_nl_no_nl b)]. Qed.
Print Assumptions C20_split_is_split.

Theorem C20_excerpt_single : forall (b : bytes) (pos end_ : nat) p,
  pos <= end_ -> end_ <= length b ->
  position_of b (Z.of_nat pos) (Z.of_nat end_) = Some p ->
  spec_line b pos = spec_line b end_ ->
  p_source p =
    fmt_line (spec_line b pos) (line_text b (spec_line b pos)) ++ [nl] ++
    [x20; x20; x20] ++ bar2 ++ repeat_byte x20 (pos - spec_start b pos) ++ [x5e] ++
    repeat_byte x7e ((end_ - spec_start b end_) - (pos - spec_start b pos) - 1).
Proof. exact excerpt_single_line. Qed.
Print Assumptions C20_excerpt_single.

Theorem C20_excerpt_multi : forall (b : bytes) (pos end_ : nat) p,
  pos <= end_ -> end_ <= length b ->
  position_of b (Z.of_nat pos) (Z.of_nat end_) = Some p ->
  spec_line b pos < spec_line b end_ ->
  p_source p = spec_multi b (spec_line b pos) (spec_line b end_ - spec_line b pos + 1).
Proof. exact excerpt_multi_line. Qed.
Print Assumptions C20_excerpt_multi.

(* every error message starts with file:line+1:col+1 of the error's Pos *)
Theorem C20_error_prefix : forall (path msg b : bytes) (pos end_ : nat) p,
  pos <= end_ -> end_ <= length b ->
  position_of b (Z.of_nat pos) (Z.of_nat end_) = Some p ->
  error_string path p msg =
    bs "syntax error: " ++ path ++ [x3a] ++ dec_of_nat (spec_line b pos + 1) ++ [x3a] ++
    dec_of_nat (pos - spec_start b pos + 1) ++ [x3a; x20] ++ msg.
Proof. exact error_prefix. Qed.
Print Assumptions C20_error_prefix.
