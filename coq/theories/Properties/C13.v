(* Property C13: lexing is lossless -- tokens tile the input and Raw/Pos/End are consistent.
   Model: Lex/Lexer.v (hand transcription of lexer.go; tie: correspondence on every check). *)
From Verif Require Import Base.Bytes Base.Utf8 Bytes.FileModel Gen.Keywords Lex.Lexer Lex.LexFacts Lex.LexTiling.
Local Open Scope nat_scope.

(* When the lexer accepts an input (public NextToken loop up to <eof>): *)
Theorem C13_lossless : forall (buf : bytes) (ts : list token),
  lex_all buf = LOk ts ->
  exists body e,
    (* exactly one <eof>, at the end; it is empty; no other token is empty *)
    ts = body ++ [e] /\ keq (t_kind e) K_eof = true /\ t_raw e = [] /\
    Forall (fun t => keq (t_kind t) K_eof = false /\ t_raw t <> []) body /\
    (* concatenating comments (Space+Raw each), Space, Raw of every token reproduces the input *)
    render_all ts = buf /\
    (* ranges are consecutive (hence increasing and non-overlapping), End = Pos + |Raw| *)
    chain 0 ts /\
    (* Raw == input[Pos:End] *)
    (forall t, In t ts -> slice buf (t_pos t) (t_end t) = Some (t_raw t)) /\
    (* comments: consecutive positions, non-empty, complete; Space is a run of White_Space runes *)
    tokens_wf buf 0 ts.
Proof.
  intros buf ts H. unfold lex_all in H.
  destruct (lex_loop_full _ _ _ _ (init_inv buf) H) as (body & e & A & B & C & D & F1 & F2 & F3).
  simpl in A, B, C, D. subst ts.
  exists body, e. split; [reflexivity|]. split; [exact F1|]. split; [exact F2|]. split; [exact F3|].
  split; [symmetry; exact B|]. split; [exact C|]. split; [|exact D].
  intros t HI. pose proof (chain_slices (body ++ [e]) [] [] t C HI) as S.
  simpl in S. rewrite app_nil_r in S. rewrite <- B in S. exact S.
Qed.
Print Assumptions C13_lossless.

(* every comment satisfies Raw == input[Pos:End] too *)
Theorem C13_comment_slices : forall (pre post : bytes) (cs : list comment) (c : comment),
  cchain (length pre) cs -> In c cs ->
  slice (pre ++ render_comments cs ++ post) (c_pos c) (c_end c) = Some (c_raw c).
Proof. exact (fun pre post cs c => cchain_slices cs pre post c). Qed.
Print Assumptions C13_comment_slices.

(* the step invariant behind it, for both modes: each call consumes exactly render(token) *)
Theorem C13_step : forall np l l',
  lex_inv l -> next_token np l = LOk l' ->
  lex_inv l' /\ l_rest l = render (l_tok l') ++ l_rest l' /\
  t_end (l_tok l') = t_pos (l_tok l') + length (t_raw (l_tok l')) /\ l_pos l' = t_end (l_tok l').
Proof.
  intros np l l' I N. pose proof (next_token_step _ _ _ N) as S.
  split; [exact (step_inv _ _ I S)|]. destruct S; auto.
Qed.
Print Assumptions C13_step.

(* calling NextToken again at end of input keeps returning <eof>, without moving *)
Theorem C13_eof_stable : forall np l,
  l_rest l = [] ->
  exists l', next_token np l = LOk l' /\ t_kind (l_tok l') = K_eof /\ l_rest l' = [] /\ l_pos l' = l_pos l /\
             t_pos (l_tok l') = l_pos l /\ t_end (l_tok l') = l_pos l /\ t_raw (l_tok l') = [] /\
             t_comments (l_tok l') = [] /\ t_space (l_tok l') = [].
Proof. exact next_token_at_eof. Qed.
Print Assumptions C13_eof_stable.

(* after an <eof> token nothing is left *)
Theorem C13_eof_means_end : forall np l l',
  next_token np l = LOk l' -> keq (t_kind (l_tok l')) K_eof = true -> l_rest l' = [] /\ t_raw (l_tok l') = [].
Proof. exact next_token_eof. Qed.
Print Assumptions C13_eof_means_end.

(* non-vacuity: an input with every kind of trivia lexes and satisfies the premises *)
Example C13_example :
  match lex_all (bs "SELECT a.1b, /*c*/ 'x\n' -- z") with LOk ts => length ts = 7 | _ => False end.
Proof. vm_compute. reflexivity. Qed.
