(* Property C09: error contract -- nil error iff clean, fully consumed parse; Bad nodes imply error.
   Whole parser: trace model of the error list (Skel/ErrorContract.v) + per-run syntactic obligations on the regenerated
   summary (Gen/SkeletonData.v) + the escape theorem of C03 (no error leaves as a panic instead of being recorded).
   Error positions of lexical errors: Properties/C03_lexer.v (C03_lexer_error_range). *)
From Coq Require Import String List Bool Arith.
From Verif Require Import Skel.Skeleton Skel.ErrorContract Gen.SkeletonData GenChecks.
Import ListNotations.

Theorem C09_errors_cover_bad_nodes : forall t, disciplined t -> bads t <= errs t.
Proof. exact errors_cover_bad_nodes. Qed.
Print Assumptions C09_errors_cover_bad_nodes.

Theorem C09_nil_error_iff_clean : forall n at_eof, epilogue n at_eof = None <-> (n = 0 /\ at_eof = true).
Proof. exact nil_error_iff_clean. Qed.
Print Assumptions C09_nil_error_iff_clean.

Theorem C09_nil_error_implies_no_bad_node_and_eof :
  forall t at_eof, disciplined t -> epilogue (errs t) at_eof = None -> bads t = 0 /\ at_eof = true.
Proof. exact nil_error_implies_no_bad_node. Qed.
Print Assumptions C09_nil_error_implies_no_bad_node_and_eof.

Theorem C09_non_nil_error_is_non_empty : forall n at_eof k, epilogue n at_eof = Some k -> 0 < k /\ n <= k.
Proof. exact non_nil_error_is_non_empty. Qed.
Print Assumptions C09_non_nil_error_is_non_empty.

(* for the CURRENT source: errors is only ever appended to, one element at a time; the four functions that build an
   ast.BadNode call handleError first; all nine Parser.ParseX methods end with the modelled epilogue and have no other return *)
Theorem C09_discipline_holds_in_current_source : error_discipline_ok errors_writes bad_sites entry_shapes entry_points = true.
Proof. exact error_discipline_checked. Qed.
Print Assumptions C09_discipline_holds_in_current_source.

(* ... and no *Error is lost as an escaping panic instead (C03) *)
Theorem C09_errors_are_recorded_not_thrown : forall f, In f entry_points -> ~ escapes skeleton f.
Proof.
  intros f H. apply (no_escape skeleton escaping_now f escape_postfix_checked).
  pose proof entries_do_not_escape as E. rewrite forallb_forall in E. specialize (E f H).
  destruct (smem f escaping_now); [discriminate|reflexivity].
Qed.
Print Assumptions C09_errors_are_recorded_not_thrown.

Example C09_example : disciplined [AppendErr; MkBad; AppendErr] /\ epilogue 2 true = Some 2 /\ epilogue 0 false = Some 1.
Proof. split; [apply (DAppend [AppendErr; MkBad]); apply (DHandler []); constructor|split; reflexivity]. Qed.

(* ---- the error contract of ParseType, whole: Parse/TypeRecover.v models the type grammar TOGETHER with handleParseTypeError as a total
   function of the token list (tree with BadType nodes + the list of recorded errors); it is tied to ParseType in every run on ~32000
   accepted and rejected inputs (whole trees, every error position).  [bads] counts the Bad nodes of the returned tree. ---- *)
From Coq Require Import ZArith List.
Import ListNotations.
From Verif Require Import Base.Bytes Parse.ExprModel Parse.TypeModel Parse.TypeProofs Parse.TypeRecover Parse.TypeRecoverProofs.

(* whatever ParseType returns: at least one error per Bad node; and a nil error exactly when the whole input is one type of the grammar --
   then the tree has no Bad node and is the tree of the success-path model *)
Theorem C09_type_parser_contract : forall ts t errs, parse_typeR ts = Some (t, errs) ->
  (TypeRecover.bads t <= length errs)%nat /\ (errs = [] <-> exists t0 r, parse_type ts = Ok (t0, r) /\ t = embed t0).
Proof. exact parse_typeR_contract. Qed.
Print Assumptions C09_type_parser_contract.

(* it always returns: a tree and an error list for every token list that ends with <eof> (never a panic, never out of fuel) *)
Theorem C09_type_parser_always_answers : forall ts, last_eof ts -> exists t errs, parse_typeR ts = Some (t, errs).
Proof. exact parse_typeR_total. Qed.
Print Assumptions C09_type_parser_always_answers.

(* errors are only ever appended: every activation of parseType leaves the errors recorded before it in place *)
Theorem C09_type_errors_only_accumulate : forall f ts e, ext e (PTR f ts e).
Proof. exact PTR_grows. Qed.
Print Assumptions C09_type_errors_only_accumulate.

(* up to the first error the recovering parser and the success-path parser run in lockstep: same tree, or the first recorded error is the
   error of the success-path model *)
Theorem C09_type_first_error : forall f ts e, rel embed (PT f ts) (PTR f ts e) e.
Proof. exact PTR_simulates_PT. Qed.
Print Assumptions C09_type_first_error.

(* non-vacuity: ARRAY<1> -- one error, one Bad node holding the token 1, inside a well-formed ArrayType *)
Example C09_type_example :
  let tkz (k : String.string) (p : Z) (n : Z) := {| pk := bs k; praw := bs k; pstr := []; ppos := p; pend := (p + n)%Z; pbase := 0 |} in
  let one := {| pk := bs K_int; praw := bs "1"; pstr := []; ppos := 6%Z; pend := 7%Z; pbase := 10%Z |} in
  parse_typeR [tkz "ARRAY"%string 0 5; tkz "<"%string 5 1; one; tkz ">"%string 7 1; tkz K_eof 8 0]%Z
  = Some (RArray 0 7 (RBad 6 7 [one]), [6%Z]).
Proof. vm_compute. reflexivity. Qed.

(* ---- the statement family (Parse/StmtModel.v, tied to ParseDDL / ParseStatement / the list entry points): parseDDL records no error exactly
   when its success path returned a node -- which is then not a Bad node -- and otherwise exactly one error together with one BadDDL ---- *)
From Verif Require Import Parse.StmtModel Parse.StmtProofs.
Theorem C09_family_error_iff_bad_node : forall ts d r e, sp_ddl ts = Some (d, r, e) ->
  (e = 0 /\ ddl_body ts = Some (Ok (d, r)) /\ exists ty fs, d = DNode ty fs) \/ (e = 1 /\ exists p q sk, d = DBad false p q sk).
Proof. exact sp_ddl_errors. Qed.
Print Assumptions C09_family_error_iff_bad_node.

(* ---- through the list entry points: whenever the statement parser records exactly one error for a Bad node it returns and none otherwise,
   ParseStatements / ParseDDLs / ParseDMLs report between (number of Bad nodes) and (number of Bad nodes + 1) errors -- the extra one only
   for input left over -- so every Bad node has its error and no error means no Bad node; [sp] is ANY statement parser with that
   discipline, [w] weighs a Bad node one ---- *)
From Verif Require Import Parse.ListLoop Parse.ListErrors.
Theorem C09_lists_have_an_error_per_bad_node : forall (stmt : Type) (sp : toks -> stmt * toks * nat) (w : stmt -> nat),
  (forall ts, let '(s, _, e) := sp ts in e = w s) ->
  forall ts, let '(ns, errs) := parse_many stmt sp ts in
    (sumw stmt w ns <= errs <= sumw stmt w ns + 1)%nat /\ (errs = 0%nat -> sumw stmt w ns = 0%nat).
Proof. exact parse_many_counts. Qed.
Print Assumptions C09_lists_have_an_error_per_bad_node.

(* the statement family keeps that discipline (both entry points), so lists of family statements do, whatever the rest of the parser
   returns as long as it keeps it too *)
Theorem C09_family_lists : forall other,
  (forall ts, let '(s, _, e) := other ts in e = bad_weight s) ->
  forall ts, let '(ns, errs) := parse_many dnode (spT other sp_stmt) ts in
    (sumw dnode bad_weight ns <= errs <= sumw dnode bad_weight ns + 1)%nat /\ (errs = 0%nat -> sumw dnode bad_weight ns = 0%nat).
Proof. intros other HO. exact (family_list_errors sp_stmt other sp_stmt_counts HO). Qed.
Print Assumptions C09_family_lists.
