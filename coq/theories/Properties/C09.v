(* Property C09: error contract -- nil error iff clean, fully consumed parse; Bad nodes imply error.
   Whole parser: trace model of the error list (Skel/ErrorContract.v) + per-run syntactic obligations on the regenerated
   summary (Gen/SkeletonData.v) + the escape theorem of C03 (no error leaves as a panic instead of being recorded).
   Error positions of lexical errors: Properties/C03_lexer.v (C03_lexer_error_range). *)
From Coq Require Import String List Bool Arith.
From Verif Require Import Skel.Skeleton Skel.ErrorContract Gen.SkeletonData GenChecks.
Import ListNotations.

Theorem C09_errors_cover_bad_nodes : forall t, disciplined t -> bads t <= errs t.
Proof. exact errors_cover_bad_nodes. Qed.
Print Assumptions C09_errors_cover_bad_nodes.

Theorem C09_nil_error_iff_clean : forall n at_eof, epilogue n at_eof = None <-> (n = 0 /\ at_eof = true).
Proof. exact nil_error_iff_clean. Qed.
Print Assumptions C09_nil_error_iff_clean.

Theorem C09_nil_error_implies_no_bad_node_and_eof :
  forall t at_eof, disciplined t -> epilogue (errs t) at_eof = None -> bads t = 0 /\ at_eof = true.
Proof. exact nil_error_implies_no_bad_node. Qed.
Print Assumptions C09_nil_error_implies_no_bad_node_and_eof.

Theorem C09_non_nil_error_is_non_empty : forall n at_eof k, epilogue n at_eof = Some k -> 0 < k /\ n <= k.
Proof. exact non_nil_error_is_non_empty. Qed.
Print Assumptions C09_non_nil_error_is_non_empty.

(* for the CURRENT source: errors is only ever appended to, one element at a time; the four functions that build an
   ast.BadNode call handleError first; all nine Parser.ParseX methods end with the modelled epilogue and have no other return *)
Theorem C09_discipline_holds_in_current_source : error_discipline_ok errors_writes bad_sites entry_shapes entry_points = true.
Proof. exact error_discipline_checked. Qed.
Print Assumptions C09_discipline_holds_in_current_source.

(* ... and no *Error is lost as an escaping panic instead (C03) *)
Theorem C09_errors_are_recorded_not_thrown : forall f, In f entry_points -> ~ escapes skeleton f.
Proof.
  intros f H. apply (no_escape skeleton escaping_now f escape_postfix_checked).
  pose proof entries_do_not_escape as E. rewrite forallb_forall in E. specialize (E f H).
  destruct (smem f escaping_now); [discriminate|reflexivity].
Qed.
Print Assumptions C09_errors_are_recorded_not_thrown.

Example C09_example : disciplined [AppendErr; MkBad; AppendErr] /\ epilogue 2 true = Some 2 /\ epilogue 0 false = Some 1.
Proof. split; [apply (DAppend [AppendErr; MkBad]); apply (DHandler []); constructor|split; reflexivity]. Qed.
