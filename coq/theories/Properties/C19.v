(* Property C19: generated Pos/End/Walk code equals what the node documentation specifies.
   Data: Gen/Schema.v, Gen/PosSpec.v (doc comments, parsed by the translator's own POS parser), Gen/PosImpl.v (ast/pos.go),
   Gen/WalkImpl.v (ast/walk_internal.go) -- regenerated from /repo on every run.  Semantics: Tree/PosLang.v. *)
From Verif Require Import Tree.Tree Tree.PosLang Tree.PosProofs Tree.Walk Tree.Checkers GenChecks.
From Verif Require Import Gen.Schema Gen.PosSpec Gen.PosImpl Gen.WalkImpl.
Local Open Scope string_scope.

(* generic: a method that is the compilation of a documented expression returns that expression's value whenever it returns *)
Theorem C19_compile_refines : forall ρ e v, geval_body ρ (compile e) = Some v -> eval_p ρ e = Some v.
Proof. exact compile_refines. Qed.
Print Assumptions C19_compile_refines.

(* generic: and it always returns on a receiver whose fields have the declared kinds (no index panic, no nil dereference) *)
Theorem C19_compile_total : forall fds ρ e, env_ok fds ρ -> wf_p fds e = true -> exists v, geval_body ρ (compile e) = Some v.
Proof. exact compile_total. Qed.
Print Assumptions C19_compile_total.

(* for the CURRENT source: every node type of ast.go has a documented pos/end, pos.go contains for it exactly the compiled
   methods, and on every receiver of that type (whatever the values of its fields and the positions of its children)
   Pos() and End() return exactly the value of the documented expression *)
Theorem C19_pos_end_equal_documentation :
  forall ty fds, assoc ty schema = Some fds ->
  exists sp se, assoc ty pos_spec = Some (sp, se) /\ assoc ty pos_impl = Some (compile sp, compile se) /\
    forall ρ, env_ok fds ρ ->
      exists p e, geval_body ρ (compile sp) = Some p /\ eval_p ρ sp = Some p /\
                  geval_body ρ (compile se) = Some e /\ eval_p ρ se = Some e.
Proof. exact (pos_tables_sound schema pos_spec pos_impl pos_tables_checked). Qed.
Print Assumptions C19_pos_end_equal_documentation.

(* traversal: the generated switch has one case per node type, pushing exactly its node-typed fields in reverse declaration
   order (so that they are popped in declaration order), read and labelled by their own names *)
Theorem C19_walk_enumerates_node_fields :
  forall ty fds, assoc ty schema = Some fds ->
  exists l, assoc ty walk_impl = Some (WPushes l) /\
            map (fun '(f, m, lbl) => (f, m)) (rev l) = node_fields fds /\
            Forall (fun '(f, m, lbl) => lbl = f) l.
Proof. exact (walk_table_sound schema walk_impl walk_table_checked). Qed.
Print Assumptions C19_walk_enumerates_node_fields.

(* non-vacuity: a concrete receiver -- CompoundQuery with two queries -- and the values both sides compute *)
Example C19_example :
  let ρ := [("Op", FvLen 5); ("AllOrDistinct", FvLen 3); ("Queries", FvNodes [(0, 8); (19, 27)])]%Z in
  env_ok [("Op", KStr); ("AllOrDistinct", KStr); ("Queries", KNodes "QueryExpr" true)] ρ /\
  match assoc "CompoundQuery" pos_spec, assoc "CompoundQuery" pos_impl with
  | Some (sp, se), Some (ip, ie) => eval_p ρ sp = Some 0%Z /\ eval_p ρ se = Some 27%Z /\ geval_body ρ ip = Some 0%Z /\ geval_body ρ ie = Some 27%Z
  | _, _ => False
  end.
Proof. vm_compute. repeat split; reflexivity. Qed.
