(* Property C12: SplitRawStatements partitions the input at ';' tokens and nothing else.
   Models: Bytes/Split.v on top of Lex/Lexer.v (hand transcriptions; tie: correspondence). *)
From Verif Require Import Base.Bytes Base.Utf8 Bytes.FileModel Gen.Keywords Lex.Lexer Lex.LexFacts Lex.LexTiling
  Lex.LexTotal Bytes.Split Bytes.SplitProofs.
Local Open Scope nat_scope.

(* The splitter is a function of the token sequence: it succeeds with the cut [split_toks] of the tokens
   (or the single empty piece) and Statement == input[Pos:End]; it fails with the lexer's own error. *)
Theorem C12_split_is_cut_of_tokens : forall buf,
  match split buf with
  | LOk ps => exists fuel ts, lex_loop fuel (init_lexer buf) [] = LOk ts /\
                              map range_of ps = default_pieces (split_toks zero_token ts 0) /\
                              Forall (piece_ok buf) ps
  | LErr e => exists fuel, lex_loop fuel (init_lexer buf) [] = LErr e
  | LCrash => False
  end.
Proof.
  intros buf. pose proof (split_spec buf) as S. pose proof (split_total buf) as T.
  destruct (split buf); auto.
Qed.
Print Assumptions C12_split_is_cut_of_tokens.

(* it fails exactly when the input has a lexical error *)
Theorem C12_fails_iff_lexical_error : forall buf e,
  lex_all buf = LErr e -> split buf = LErr e.
Proof.
  intros buf e H. destruct (split_fails_when_lexer_fails buf e H) as [X|X]; [exact X|].
  exfalso. exact (split_total buf X).
Qed.
Print Assumptions C12_fails_iff_lexical_error.

(* the cut of an accepted token stream: pieces in increasing non-overlapping order inside the buffer,
   no piece contains a ';' token, every other token and every comment lies inside a piece,
   two consecutive pieces are separated exactly at a ';' token s: the first ends at Pos(s), the next
   starts where the token after s starts (its first leading comment, or the token itself) -- by C13
   that is End(s) plus a run of whitespace. *)
Theorem C12_partition : forall buf ts,
  lex_all buf = LOk ts ->
  let ps := split_toks zero_token ts 0 in
  pieces_sorted (length buf) 0 ps /\
  (forall t, In t ts -> is_semi t = true -> forall a b, In (a, b) ps -> ~ (a <= t_pos t /\ t_pos t < b)) /\
  (forall t, In t ts -> is_semi t = false -> is_eof t = false -> covers ps (t_pos t) (t_end t)) /\
  (forall t c, In t ts -> In c (t_comments t) -> covers ps (c_pos c) (c_end c)) /\
  adjacent_ok (zero_token :: ts) ps.
Proof. exact split_partition. Qed.
Print Assumptions C12_partition.

(* "exactly one piece": a non-empty range is inside at most one piece of a sorted cut *)
Theorem C12_at_most_one_piece : forall len ps lo0 i j a b c d lo hi,
  pieces_sorted len lo0 ps ->
  nth_error ps i = Some (a, b) -> nth_error ps j = Some (c, d) ->
  a <= lo -> hi <= b -> c <= lo -> hi <= d -> lo < hi -> i = j.
Proof. exact covers_unique. Qed.
Print Assumptions C12_at_most_one_piece.

(* semicolons inside literals and comments never split: they are not ';' TOKENS; example *)
Example C12_example :
  match split (bs "SELECT ';' /*;*/ ; /*c*/ SELECT 2") with
  | LOk ps => map range_of ps = [(0, 17); (19, 33)]
  | _ => False
  end.
Proof. vm_compute. reflexivity. Qed.
