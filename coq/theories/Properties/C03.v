(* Property C03: parsing entry points are total -- no panic, always terminate, typed errors.
   Lexer / splitter part: Properties/C03_lexer.v (all byte strings, on the lexer model).
   Parser part (this file): no *Error panic can leave an exported function or method -- proved for every path of the control
   skeleton regenerated from parser.go/lexer.go/split.go (all data abstracted: every real path is a skeleton path). *)
From Coq Require Import String List Bool.
From Verif Require Import Skel.Skeleton Gen.SkeletonData GenChecks.
Import ListNotations.

(* generic: membership in a verified post-fixpoint over-approximates "a *Error panic can leave f" *)
Theorem C03_escape_analysis_sound : forall prog A, is_postfix prog A = true -> forall f, escapes prog f -> smem f A = true.
Proof. exact escape_sound. Qed.
Print Assumptions C03_escape_analysis_sound.

(* for the CURRENT source: whatever the input, on no path of the skeleton does a *Error panic leave ParseStatement(s), ParseQuery,
   ParseExpr, ParseType, ParseDDL(s), ParseDML(s) (package functions and Parser methods), Lexer.NextToken or SplitRawStatements *)
Theorem C03_no_error_panic_escapes_an_entry_point : forall f, In f entry_points -> ~ escapes skeleton f.
Proof.
  intros f H. apply (no_escape skeleton escaping_now f escape_postfix_checked).
  pose proof entries_do_not_escape as E. rewrite forallb_forall in E. specialize (E f H).
  destruct (smem f escaping_now); [discriminate|reflexivity].
Qed.
Print Assumptions C03_no_error_panic_escapes_an_entry_point.

(* non-vacuity: the analysis is not trivially empty -- internal productions do let *Error panics out (to their callers' recover) *)
Example C03_internal_functions_do_escape : smem "Parser.parseLit" escaping_now = true /\ smem "Parser.expect" escaping_now = true.
Proof. vm_compute. auto. Qed.

(* ---- termination of the type parser: the model of ParseType (Parse/TypeModel.v, the whole type grammar, tied to the real ParseType by the
   correspondence of every run) never exhausts the fuel of its entry point: parseType's recursion and its two loops end after at most
   2 * (number of tokens) + 2 calls, on EVERY token list -- sentences, near misses and garbage alike *)
From Verif Require Import Parse.ExprModel Parse.TypeModel Parse.TypeProofs.
Theorem C03_type_parser_terminates : forall ts, parse_type ts <> Fuel.
Proof. exact parse_type_total. Qed.
Print Assumptions C03_type_parser_terminates.

Theorem C03_type_parser_fuel_bound : forall f ts, (length ts <= f)%nat -> PT (S f) ts <> Fuel.
Proof. exact PT_total. Qed.
Print Assumptions C03_type_parser_fuel_bound.

(* with its error recovery (Parse/TypeRecover.v) the model of ParseType is a total function on lexer output: every token list ending with
   <eof> gets a tree and an error list -- the recursion, both loops and the skip loops of handleParseTypeError all end *)
From Verif Require Import Parse.TypeRecover Parse.TypeRecoverProofs.
Theorem C03_type_parser_with_recovery_is_total : forall ts, last_eof ts -> exists t errs, parse_typeR ts = Some (t, errs).
Proof. exact parse_typeR_total. Qed.
Print Assumptions C03_type_parser_with_recovery_is_total.

(* the statement family (Parse/StmtModel.v): its loops -- over a dotted name and over comma-separated lists (renamings, privileges, columns,
   names, roles), nested two deep -- are bounded by the input: the parser of these twenty-four statements never exhausts its fuel, on any token list *)
From Verif Require Import Parse.StmtModel Parse.StmtProofs.
Theorem C03_statement_family_terminates : forall ts, ddl_body ts <> Some Fuel.
Proof. exact ddl_body_nofuel. Qed.
Print Assumptions C03_statement_family_terminates.

(* parseCommaSeparatedList, the loop behind every comma-separated list of the parser, as modelled in Parse/StmtModel.v: for ANY item parser
   that itself terminates, never grows the input and never accepts an item that starts with a comma, the list parser terminates on every
   token list with the fuel the model gives it (one more than the number of tokens) *)
Theorem C03_comma_separated_lists_terminate : forall (A : Type) (item : toks -> ExprModel.res (A * toks)),
  (forall ts, item ts <> Fuel) ->
  (forall ts x r, item ts = Ok (x, r) -> (length r <= length ts)%nat /\ kis (cur ts) "," = false) ->
  forall ts, comma_list item ts <> Fuel.
Proof. exact @comma_list_nofuel. Qed.
Print Assumptions C03_comma_separated_lists_terminate.
