(* Property C16: whitespace, comments and keyword case never change the AST.
   Parser half, on the expression fragment (Parse/ExprModel.v, tied to ParseExpr by correspondence): the model's input is the bare
   token list -- whitespace and comments are not part of it -- and the theorems below show that, of each token, only the kind and the
   value matter: positions, the spelling of keywords and punctuation, and the letter case of identifiers used as pseudo keywords
   cannot change acceptance or the tree (compared with every position erased).  The hypothesis (same_tokens_ci on the two token
   lists) is decidable and is evaluated by the check on the real lexer's output for every sampled input and re-spelling. *)
From Verif Require Import Base.Bytes Tree.Tree Parse.ExprModel Parse.ExprFacts Parse.Respell.

(* exact identifier spelling *)
Theorem C16_respelling_exact : forall ts ts', same_tokens ts ts' -> same_result (parse_expr ts) (parse_expr ts').
Proof. exact respell_exact. Qed.
Print Assumptions C16_respelling_exact.

(* identifiers up to letter case (pseudo keywords re-cased) *)
Theorem C16_respelling_case_insensitive : forall ts ts', same_tokens_ci ts ts' -> same_result_ci (parse_expr ts) (parse_expr ts').
Proof. exact respell_case_insensitive. Qed.
Print Assumptions C16_respelling_case_insensitive.

(* every parser function of the fragment, any fuel, with related accumulators *)
Theorem C16_every_parser_function : forall norm, (forall a b, norm a = norm b -> to_upper a = to_upper b) ->
  forall f m m' ts ts', msim norm m m' -> tssim norm ts ts' -> rsim norm (P f m ts) (P f m' ts').
Proof. exact P_sim. Qed.
Print Assumptions C16_every_parser_function.

Theorem C16_hypothesis_is_checkable : forall a b, same_tokens_cib a b = true -> same_tokens_ci a b.
Proof. exact same_tokens_cib_ok. Qed.
Print Assumptions C16_hypothesis_is_checkable.

(* non-vacuity: two spellings of  NOT a [ offset ( 1 ) ]  with different positions, keyword case and pseudo-keyword case *)
Definition tk (k r s : String.string) (p e b : Z) : ptok := {| pk := bs k; praw := bs r; pstr := bs s; ppos := p; pend := e; pbase := b |}.
Example C16_example :
  let x := [tk "NOT" "NOT" "" 0 3 0; tk "<ident>" "a" "a" 4 5 0; tk "[" "[" "" 5 6 0; tk "<ident>" "offset" "offset" 6 12 0; tk "(" "(" "" 12 13 0;
            tk "<int>" "1" "" 13 14 10; tk ")" ")" "" 14 15 0; tk "]" "]" "" 15 16 0; tk "<eof>" "" "" 16 16 0] in
  let y := [tk "NOT" "not" "" 2 5 0; tk "<ident>" "a" "a" 20 21 0; tk "[" "[" "" 30 31 0; tk "<ident>" "OFFSET" "OFFSET" 40 46 0; tk "(" "(" "" 50 51 0;
            tk "<int>" "1" "" 60 61 10; tk ")" ")" "" 70 71 0; tk "]" "]" "" 80 81 0; tk "<eof>" "" "" 90 90 0] in
  same_tokens_cib x y = true /\ (exists e r, parse_expr x = Ok (e, r)) /\ same_tokensb x y = false.
Proof. vm_compute. repeat split; eauto. Qed.

(* ---- lexer half: trivia in front of the unread input is absorbed; keyword case ---- *)
From Verif Require Import Base.Utf8 Gen.Keywords Lex.Reference Lex.TriviaAbsorb.

(* closed_trivia j: j is any sequence of White_Space characters (all 25, UTF-8 encoded) and complete comments ('#', '--', '//' up to
   and including the line feed; '/* ... */').  At ANY point of the scan of the reference lexer (= the model of lexer.go, C14) such a j
   in front of the unread input changes nothing in the tokens that follow *)
Theorem C16_trivia_is_absorbed : forall j, closed_trivia j -> forall f prev apd s racc,
  ref_loop (S f) prev apd (j ++ s) racc = ref_loop (S f) prev apd s racc.
Proof. exact ref_loop_absorbs. Qed.
Print Assumptions C16_trivia_is_absorbed.

Theorem C16_trivia_length : forall j, closed_trivia j -> forall s,
  trivia_len (S (length (j ++ s))) (j ++ s) = option_map (fun n => (length j + n)%nat) (trivia_len (S (length s)) s).
Proof. exact trivia_absorb. Qed.
Print Assumptions C16_trivia_length.

Theorem C16_keyword_case : forall s s',
  to_upper (firstn (many is_ident_part s) s) = to_upper (firstn (many is_ident_part s') s') -> r_kind (word_at s) = r_kind (word_at s').
Proof. exact word_kind_case. Qed.
Print Assumptions C16_keyword_case.

(* ---- the type grammar: the answer of ParseType's model depends on the KINDS of the tokens and the NAMES of identifiers only -- positions,
   keyword spelling, quoting; with norm = to_upper also the letter case of identifiers (builtin type names are recognised in any case) ---- *)
From Verif Require Import Parse.TypeModel Parse.TypeRespell.
Theorem C16_type_respelling : forall norm, (forall a b, norm a = norm b -> to_upper a = to_upper b) ->
  forall ts ts', TypeRespell.tssim norm ts ts' -> rsimT norm (parse_type ts) (parse_type ts').
Proof. exact parse_type_sim. Qed.
Print Assumptions C16_type_respelling.

(* ---- the statement family (Parse/StmtModel.v: twenty-four DDL statements with their recover points, tied to ParseDDL / ParseStatement and the
   list entry points in every run): what the statement parser returns -- the node, the rest, the number of errors, the tokens of a Bad node --
   depends on the tokens only through their kinds, the values of identifiers up to [norm], and the spelling of identifier-like words up to
   letter case.  White space and comments only move positions, and the letter case of keywords and pseudo keywords is invisible: the same
   statement is parsed, accepted or rejected alike, with the same shape ---- *)
From Verif Require Import Parse.StmtModel Parse.StmtRespell.
Theorem C16_ddl_statement_respelling : forall norm ts ts', sssim norm ts ts' -> psim norm (sp_ddl ts) (sp_ddl ts').
Proof. exact sp_ddl_sim. Qed.
Print Assumptions C16_ddl_statement_respelling.

Theorem C16_statement_respelling : forall norm ts ts', sssim norm ts ts' -> psim norm (sp_stmt ts) (sp_stmt ts').
Proof. exact sp_stmt_sim. Qed.
Print Assumptions C16_statement_respelling.

(* the decidable form of the hypothesis evaluated on real token lists in every run *)
Theorem C16_statement_tokens_checker_sound : forall a b, same_stmt_tokensb a b = true -> sssim to_upper a b.
Proof. exact same_stmt_tokensb_ok. Qed.
Print Assumptions C16_statement_tokens_checker_sound.

(* non-vacuity: "drop  table t" and "DROP TABLE /*c*/ t" (other positions, other letter case) are related, and both parse to a DropTable *)
Example C16_statement_example :
  let idz (s : string) (p : Z) := {| pk := bs K_ident; praw := bs s; pstr := bs s; ppos := p; pend := (p + Z.of_nat (String.length s))%Z; pbase := 0 |} in
  let e (p : Z) := {| pk := bs K_eof; praw := []; pstr := []; ppos := p; pend := p; pbase := 0 |} in
  let a := [idz "drop"%string 0; idz "table"%string 6; idz "t"%string 12; e 13]%Z in
  let b := [idz "DROP"%string 0; idz "TABLE"%string 5; idz "t"%string 17; e 18]%Z in
  same_stmt_tokensb a b = true /\
  (exists fs r, sp_stmt a = Some (DNode "DropTable"%string fs, r, 0%nat)) /\ (exists fs r, sp_stmt b = Some (DNode "DropTable"%string fs, r, 0%nat)).
Proof. vm_compute. split; [reflexivity|]. split; eexists; eexists; reflexivity. Qed.
