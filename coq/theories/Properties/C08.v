(* Property C08: the documented grammar is accepted; entry points agree.
   Fragment: every canonical expression sentence is accepted and yields its tree (Parse/RoundTrip.v).
   The rest of the reference grammar G (bin/gens.py, written from the documentation) is exercised on the implementation:
   systematic + random sentences under the specific entry point, ParseStatement and the list entry points. *)
From Verif Require Import Base.Bytes Tree.Tree Parse.ExprModel Parse.ExprFacts Parse.Spell Parse.RoundTrip.

(* every sentence of the expression fragment of G -- a canonical tree spelled without added parentheses -- is accepted by the
   fragment parser, consumes exactly its tokens and yields exactly that tree *)
Theorem C08_fragment_sentences_are_accepted : forall e, can 12 e -> Parses (MBin BOr) (spell e ++ [eof_tok]) (e, [eof_tok]).
Proof. exact parse_spell. Qed.
Print Assumptions C08_fragment_sentences_are_accepted.

Theorem C08_acceptance_is_deterministic : forall m ts r r', Parses m ts r -> Parses m ts r' -> r = r'.
Proof. exact Parses_det. Qed.
Print Assumptions C08_acceptance_is_deterministic.
