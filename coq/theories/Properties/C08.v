(* Property C08: the documented grammar is accepted; entry points agree.
   Fragment: every canonical expression sentence is accepted and yields its tree (Parse/RoundTrip.v).
   The rest of the reference grammar G (bin/gens.py, written from the documentation) is exercised on the implementation:
   systematic + random sentences under the specific entry point, ParseStatement and the list entry points. *)
From Verif Require Import Base.Bytes Tree.Tree Parse.ExprModel Parse.ExprFacts Parse.Spell Parse.RoundTrip Parse.TypeModel Parse.TypeProofs.

(* every sentence of the expression fragment of G -- a canonical tree spelled without added parentheses -- is accepted by the
   fragment parser, consumes exactly its tokens and yields exactly that tree *)
Theorem C08_fragment_sentences_are_accepted : forall e, can 12 e -> Parses (MBin BOr) (spell e ++ [eof_tok]) (e, [eof_tok]).
Proof. exact parse_spell. Qed.
Print Assumptions C08_fragment_sentences_are_accepted.

Theorem C08_acceptance_is_deterministic : forall m ts r r', Parses m ts r -> Parses m ts r' -> r = r'.
Proof. exact Parses_det. Qed.
Print Assumptions C08_acceptance_is_deterministic.

(* ---- the type grammar (ParseType), whole: Parse/TypeModel.v transcribes parseType ... parseFieldType without leaving anything out;
   [Tr t ts K] (Parse/TypeProofs.v) is the grammar of the reference -- simple type names, dotted type names, ARRAY<T>, STRUCT<>,
   STRUCT<[name] T, ...> -- with the position every node field is documented to hold.  [unfuse] reads every ">>" token as two closing
   brackets at its two bytes. *)

(* every sentence of the type grammar followed by the end of input is accepted by the entry point, and the result is exactly the tree
   the grammar assigns, all positions included *)
Theorem C08_type_sentences_are_accepted : forall t ts e, kis e K_eof = true -> Tr t (unfuse ts) [e] -> parse_type ts = Ok (t, [e]).
Proof. exact parse_type_accepts. Qed.
Print Assumptions C08_type_sentences_are_accepted.

(* and only those: what the entry point accepts is a sentence of the grammar with that tree *)
Theorem C08_accepted_types_are_sentences : forall ts t r, last_eof ts -> parse_type ts = Ok (t, r) ->
  Tr t (unfuse ts) (unfuse r) /\ kis (cur r) K_eof = true.
Proof. exact parse_type_sound. Qed.
Print Assumptions C08_accepted_types_are_sentences.

(* white space between two closing brackets changes nothing: the parser answers on a token list exactly as on the list in which every
   ">>" is two ">" tokens *)
Theorem C08_closing_brackets_may_fuse : forall f ts, PT f (unfuse ts) = rmapU (PT f ts).
Proof. exact PT_unfuse. Qed.
Print Assumptions C08_closing_brackets_may_fuse.

(* non-vacuity: ARRAY<STRUCT<a ARRAY<INT64>>>, its three closing brackets lexed as ">>" ">", with every position *)
Example C08_type_example :
  let tkz (k : String.string) (p : Z) (n : Z) := {| pk := bs k; praw := bs k; pstr := []; ppos := p; pend := (p + n)%Z; pbase := 0 |} in
  let idz (s : String.string) (p : Z) := {| pk := bs K_ident; praw := bs s; pstr := bs s; ppos := p; pend := (p + Z.of_nat (String.length s))%Z; pbase := 0 |} in
  let ts := [tkz "ARRAY"%string 0 5; tkz "<"%string 5 1; tkz "STRUCT"%string 6 6; tkz "<"%string 12 1; idz "a"%string 13; tkz "ARRAY"%string 15 5;
             tkz "<"%string 20 1; idz "INT64"%string 21; tkz ">>"%string 26 2; tkz ">"%string 28 1; tkz K_eof 29 0]%Z in
  exists e, parse_type ts =
    Ok (TArray 0 28 (TStruct 6 27 [(Some {| id_pos := 13; id_end := 14; id_name := bs "a" |}, TArray 15 26 (TSimple 21 (bs "INT64")))]), [e])%Z.
Proof. exact nested_closers. Qed.

(* ---- entry points agree, on the statement family of Parse/StmtModel.v: for a statement that starts with CREATE, DROP, ANALYZE, RENAME, GRANT, REVOKE or ALTER,
   parseStatement (no statement hint) and parseDDL return the same node, the same rest and the same number of errors ---- *)
From Verif Require Import Parse.StmtModel Parse.StmtProofs.
Theorem C08_statement_and_ddl_entry_points_agree : forall ts,
  kis (cur ts) "CREATE" || is_kwlike (cur ts) "DROP" || is_kwlike (cur ts) "ANALYZE" || is_kwlike (cur ts) "RENAME"
  || is_kwlike (cur ts) "GRANT" || is_kwlike (cur ts) "REVOKE" || is_kwlike (cur ts) "ALTER" = true -> sp_stmt ts = sp_ddl ts.
Proof. exact family_entry_points_agree. Qed.
Print Assumptions C08_statement_and_ddl_entry_points_agree.

(* ---- the documented statement forms are accepted, on the fixed-word statements of the family: for every row of the DROP table (thirteen
   statements) and of the CREATE table (SCHEMA, DATABASE, ROLE) the sentence "head word, the words of the row, IF EXISTS where the row allows
   it, a name where the row takes one" is accepted by the model of parseDDL -- whatever the positions and the name -- and yields the node of
   the row with exactly the documented fields ---- *)
From Verif Require Import Parse.StmtAccept.
Theorem C08_drop_statements_accepted : forall p0, Forall (row_accepted (kwtok (KwLike "DROP") p0)) drop_rows.
Proof. exact drop_statements_accepted. Qed.
Print Assumptions C08_drop_statements_accepted.

Theorem C08_create_statements_accepted : forall p0, Forall (row_accepted (kwtok (Kind "CREATE") p0)) create_rows.
Proof. exact create_statements_accepted. Qed.
Print Assumptions C08_create_statements_accepted.
