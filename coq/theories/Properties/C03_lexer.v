(* Property C03, lexer and splitter part: Lexer.NextToken and SplitRawStatements are total.
   (The parser part is in Properties/C03.v.)  Models: Lex/Lexer.v, Bytes/Split.v. *)
From Verif Require Import Base.Bytes Base.Utf8 Bytes.FileModel Gen.Keywords Lex.Lexer Lex.LexFacts Lex.LexTiling
  Lex.LexTotal Bytes.Split Bytes.SplitProofs.
Local Open Scope nat_scope.

(* no Go runtime panic (index / slice out of range) in either mode, from any reachable lexer state *)
Theorem C03_next_token_no_runtime_panic : forall np l, lex_inv l -> next_token np l <> LCrash.
Proof. exact next_token_no_crash. Qed.
Print Assumptions C03_next_token_no_runtime_panic.

(* the invariant is preserved, so "reachable" is every state produced from init_lexer *)
Theorem C03_invariant : forall buf, lex_inv (init_lexer buf) /\
  forall np l l', lex_inv l -> next_token np l = LOk l' -> lex_inv l'.
Proof.
  intro buf. split; [apply init_inv|]. intros np l l' I N. exact (step_inv _ _ I (next_token_step _ _ _ N)).
Qed.
Print Assumptions C03_invariant.

(* the recovery mode (used while skipping tokens for Bad nodes) never raises an error *)
Theorem C03_recovery_mode_never_fails : forall l e, next_token true l <> LErr e.
Proof. exact next_token_np_no_error. Qed.
Print Assumptions C03_recovery_mode_never_fails.

(* lexing a whole buffer terminates within length+2 steps, without a runtime panic *)
Theorem C03_lex_all_total : forall buf, lex_all buf <> LCrash.
Proof. exact lex_all_total. Qed.
Print Assumptions C03_lex_all_total.

(* lexer errors carry a range inside the buffer (also needed by C09) *)
Theorem C03_lexer_error_range : forall l e,
  lex_inv l -> next_token false l = LErr e -> e_pos e <= e_end e /\ e_end e <= length (l_buf l).
Proof. exact next_token_error_range. Qed.
Print Assumptions C03_lexer_error_range.

(* SplitRawStatements returns normally (pieces or the lexer's error) for every byte string *)
Theorem C03_split_total : forall buf, split buf <> LCrash.
Proof. exact split_total. Qed.
Print Assumptions C03_split_total.
