(* Property C04: SQL(), Pos(), End() and Walk are total on every AST the parser returns.
   Printer/position/traversal side: generic theorems about the interpreters + per-run obligations on the programs
   regenerated from ast/sql.go, ast/pos.go, ast/walk_internal.go, ast/ast.go.
   Parser side (which trees are returned): every tree dumped from the real parser in a run is evaluated by the extracted
   interpreters and compared with the real methods, panics included (correspondence), plus the implementation-level oracle. *)
From Verif Require Import Tree.Tree Bytes.Quote Tree.PosLang Tree.PosProofs Tree.Walk Tree.WalkProofs Tree.Printer Tree.Checkers
  Tree.PrinterProofs GenChecks.
From Verif Require Import Gen.Schema Gen.PosSpec Gen.PosImpl Gen.WalkImpl Gen.PrintProg.
Local Open Scope string_scope.

(* SQL(): for EVERY program whose field reads fit the struct, on every receiver whose fields hold values of the declared
   kinds, whose children unparse, and in which every dereferenced field is present, evaluation returns a string. *)
Theorem C04_sql_total : forall ip fds ρ sp, env_good fds ρ -> forall b sl bl sv bv,
    (forall x, mem x sv = true -> assoc x sl <> None) -> (forall x, mem x bv = true -> assoc x bl <> None) ->
    wf_body fds sv bv b = true -> needs_body ρ sp b -> eval_body ip ρ sp sl bl b <> None.
Proof. exact eval_body_total. Qed.
Print Assumptions C04_sql_total.

(* ... and for the CURRENT source every node type has such a program (or one of the three hand-modelled bodies), and
   exprPrec has an entry for every implementer of Expr: paren() can not hit "exprPrec: unexpected" on a well-typed operand *)
Theorem C04_printer_programs_fit : printer_ok schema ifaces sql_prog prec_table = true.
Proof. exact printer_checked. Qed.
Print Assumptions C04_printer_programs_fit.

(* Pos()/End(): for the CURRENT source, on every receiver whose fields have the declared kinds, neither method panics *)
Theorem C04_pos_end_total :
  forall ty fds, assoc ty schema = Some fds ->
  exists sp se, assoc ty pos_impl = Some (compile sp, compile se) /\
    forall ρ, env_ok fds ρ -> exists p e, geval_body ρ (compile sp) = Some p /\ geval_body ρ (compile se) = Some e.
Proof.
  intros ty fds A. destruct (pos_tables_sound schema pos_spec pos_impl pos_tables_checked ty fds A) as (sp & se & _ & I & H).
  exists sp, se. split; [exact I|]. intros ρ Hρ. destruct (H ρ Hρ) as (p & e & Hp & _ & He & _). eauto.
Qed.
Print Assumptions C04_pos_end_total.

(* Walk / Inspect / Preorder: terminate on every tree for every visitor (the Go runtime panics of walk.go are nil-interface
   calls, excluded by the non-nil-visitor assumption) *)
Theorem C04_walk_total :
  forall (A V St : Type) visit visit_many field index (root : rose A) (v : V) (s : St),
    exists s', walk A V St visit visit_many field index root v s = Some s'.
Proof. intros. rewrite walk_correct. eauto. Qed.
Print Assumptions C04_walk_total.

(* non-vacuity: SQL() of a small well-formed BinaryExpr over two identifiers, by the regenerated program *)
Example C04_example :
  sql (fun _ => true) schema sql_prog prec_table
      (TNode "BinaryExpr" [TStr (bs "+"); TNode "Ident" [TPos 0; TPos 1; TStr (bs "a")]; TNode "Ident" [TPos 4; TPos 5; TStr (bs "b")]])
  = Some (bs "a + b").
Proof. vm_compute. reflexivity. Qed.

(* ---- parser side, on the modelled parts: every tree the expression-fragment model, the type model and the recovering type model (with
   its BadType nodes and their tokens) can return is WELL TYPED with respect to the schema regenerated from ast/ast.go in this run -- each
   node has exactly the fields of its struct, of the declared kinds, node-typed fields hold nil or a node whose type implements the declared
   interface, slices hold no nil.  These are the trees on which the theorems above make SQL(), Pos(), End() and Walk total.  (The models are
   tied to ParseExpr / ParseType by the correspondences of C07 / C08 / C09.) ---- *)
From Verif Require Import Parse.ExprModel Parse.TypeModel Parse.TypeRecover Parse.WellTyped.
Theorem C04_fragment_trees_are_well_typed : forall e, wt schema ifaces (to_tree e) = true.
Proof. exact wt_expr. Qed.
Print Assumptions C04_fragment_trees_are_well_typed.

Theorem C04_type_trees_are_well_typed : forall t, wt schema ifaces (ty_tree t) = true.
Proof. exact wt_ty. Qed.
Print Assumptions C04_type_trees_are_well_typed.

Theorem C04_recovered_type_trees_are_well_typed : forall t, wt schema ifaces (rty_tree t) = true.
Proof. exact wt_rty. Qed.
Print Assumptions C04_recovered_type_trees_are_well_typed.

(* the statement family (Parse/StmtModel.v): whatever parseDDL / parseStatement return on it -- the node of an accepted statement with its
   child nodes and lists, or a BadDDL / BadStatement holding tokens -- is well typed against the schema regenerated from ast/ast.go *)
From Verif Require Import Parse.StmtModel Parse.StmtWellTyped.
Theorem C04_family_ddl_trees_are_well_typed : forall ts d r e, sp_ddl ts = Some (d, r, e) -> wt schema ifaces (dnode_tree d) = true.
Proof. exact sp_ddl_wt. Qed.
Print Assumptions C04_family_ddl_trees_are_well_typed.

Theorem C04_family_statement_trees_are_well_typed : forall ts d r e, sp_stmt ts = Some (d, r, e) -> wt schema ifaces (dnode_tree d) = true.
Proof. exact sp_stmt_wt. Qed.
Print Assumptions C04_family_statement_trees_are_well_typed.
