(* Property C05: node positions are sound -- in range, ordered, nested, token-aligned.
   Fragment (expressions): Parse/Span.v, Parse/SpanProofs.v on the hand model of the parser (tie: correspondence, which also
   checks the hypothesis input_okb on every real token list).  All node types: C19's theorems on the regenerated position
   programs; the implementation-level oracle samples the rest of the parser. *)
From Verif Require Import Base.Bytes Tree.Tree Tree.PosLang Tree.PosProofs Parse.ExprModel Parse.ExprFacts Parse.Span Parse.SpanProofs GenChecks.
From Verif Require Import Gen.Schema Gen.PosSpec Gen.PosImpl.
Local Open Scope Z_scope.

(* On every tree of the expression fragment the GENERATED Pos()/End() (regenerated from ast/pos.go on every run) are the
   structural functions epos / eend *)
Theorem C05_generated_positions_on_fragment : forall e,
  pe gbody geval_body schema pos_impl (to_tree e) = Some (epos e, eend e).
Proof. exact pe_to_tree. Qed.
Print Assumptions C05_generated_positions_on_fragment.

(* Whatever the fragment parser returns (with or without left-over input, any fuel), for a token list as the lexer produces
   them: the node starts at the first consumed token, ends at the end of the last consumed token, and the whole tree is well
   spanned (SP): every node in range and non-empty, children inside their parent, siblings in source order without overlap *)
Theorem C05_span_of_every_result : forall f m ts e rest, input_ok ts -> P f m ts = Ok (e, rest) -> Spec m ts rest e.
Proof. exact span. Qed.
Print Assumptions C05_span_of_every_result.

Theorem C05_parse_expr_positions : forall ts e rest, input_ok ts -> parse_expr ts = Ok (e, rest) ->
  exists c, c <> [] /\ ts = c ++ rest /\ SP e /\ epos e = ppos (cur ts) /\ eend e = pend (lastt c) /\ input_ok rest.
Proof. exact parse_expr_span. Qed.
Print Assumptions C05_parse_expr_positions.

Theorem C05_in_range_and_non_empty : forall e, SP e -> 0 <= epos e /\ epos e < eend e.
Proof. exact SP_pos. Qed.
Print Assumptions C05_in_range_and_non_empty.

Theorem C05_children_nested : forall e x, SP e -> child e x -> SP x /\ epos e <= epos x /\ eend x <= eend e.
Proof. exact SP_child. Qed.
Print Assumptions C05_children_nested.

(* the hypothesis on token lists is decidable; the correspondence evaluates it on every token list the real lexer produced *)
Theorem C05_input_hypothesis_is_checkable : forall ts, input_okb ts = true -> input_ok ts.
Proof. exact input_okb_ok. Qed.
Print Assumptions C05_input_hypothesis_is_checkable.

(* for ALL node types: Pos()/End() never panic and equal the documented expression (C19) *)
Theorem C05_positions_are_the_documented_ones :
  forall ty fds, assoc ty schema = Some fds ->
  exists sp se, assoc ty pos_spec = Some (sp, se) /\ assoc ty pos_impl = Some (compile sp, compile se) /\
    forall ρ, env_ok fds ρ ->
      exists p e, geval_body ρ (compile sp) = Some p /\ eval_p ρ sp = Some p /\
                  geval_body ρ (compile se) = Some e /\ eval_p ρ se = Some e.
Proof. exact (pos_tables_sound schema pos_spec pos_impl pos_tables_checked). Qed.
Print Assumptions C05_positions_are_the_documented_ones.

(* ---- the type grammar (ParseType), whole: Parse/TypeModel.v, Parse/TypeProofs.v, Parse/TypeSpan.v ---- *)
From Verif Require Import Parse.TypeModel Parse.TypeProofs Parse.TypeSpan Parse.TypePos.

(* whatever the model of ParseType accepts from a token list laid out like lexer output (tokens in source order without overlap,
   non-empty, ">>" and "<>" two bytes wide, a builtin type name at least as wide as its letters) starts at its first token, ends no
   later than the next token starts, and is well spanned: Pos() < End() at every node, an ARRAY's item strictly between "ARRAY" and its
   closing bracket, struct fields in source order without overlap inside the brackets, a field name before its type, the components
   of a dotted name ordered *)
Theorem C05_type_positions : forall ts t r, last_eof ts -> chain ts -> toks_ok ts -> gtgt_ok ts -> parse_type ts = Ok (t, r) ->
  (ty_pos t = ppos (cur ts) /\ ty_end t <= ppos (cur r) /\ wspan t)%Z.
Proof. exact parse_type_span. Qed.
Print Assumptions C05_type_positions.

(* on every sentence of the type grammar, for every sub-tree *)
Theorem C05_type_span_everywhere :
  (forall t ts K, Tr t ts K -> S_ty t ts K) /\ (forall f ts K, TrField f ts K -> S_field f ts K) /\ (forall fs ts K, TrMore fs ts K -> S_more fs ts K).
Proof. exact type_span. Qed.
Print Assumptions C05_type_span_everywhere.

(* the hypotheses on the token list are decidable and evaluated on every real token list of the correspondence *)
Theorem C05_type_input_hypothesis_is_checkable : forall ts, type_input_okb ts = true -> chain ts /\ toks_ok ts /\ gtgt_ok ts.
Proof. exact type_input_okb_ok. Qed.
Print Assumptions C05_type_input_hypothesis_is_checkable.

(* the GENERATED Pos()/End() (regenerated from ast/pos.go in every run) compute these extents on the four type node kinds *)
Theorem C05_generated_positions_on_types : forall t, valid_end t ->
  pe gbody geval_body schema pos_impl (ty_tree t) = Some (ty_pos t, ty_end t).
Proof. exact pe_ty_tree. Qed.
Print Assumptions C05_generated_positions_on_types.

(* ---- the statement family (Parse/StmtModel.v): the node of an accepted statement carries, as its first field, the position of the
   statement's first token -- the field all twenty-four node types document as their Pos() ---- *)
From Verif Require Import Parse.StmtModel Parse.StmtProofs.
Theorem C05_family_statement_starts_at_its_first_token : forall ts d r,
  ddl_body ts = Some (Ok (d, r)) -> exists ty fs, d = DNode ty (FPos (ppos (cur ts)) :: fs).
Proof. exact ddl_body_pos. Qed.
Print Assumptions C05_family_statement_starts_at_its_first_token.
