(* Property C10: Bad nodes capture exactly the skipped source tokens.
   Model: Parse/Recovery.v -- the four error handlers of parser.go over the lexer model in recovery mode (tie: the Bad nodes the model
   predicts from the state of the recovery-mode scan at NodePos are compared with the Bad nodes of real trees on every run).
   path l col l0: col are the current tokens of the successive states of the recovery-mode scan from l up to (not including) l0. *)
From Verif Require Import Base.Bytes Base.Utf8 Bytes.FileModel Gen.Keywords Lex.Lexer Lex.LexFacts Lex.LexTiling Parse.Recovery Parse.RecoveryProofs.
Local Open Scope nat_scope.

(* every handler, from every state the lexer can be in: it returns; the Bad node holds, in order and each once, exactly the tokens
   of the recovery-mode scan from the current token up to the first stop token (end of input, or a token the handler stops at with
   the nesting reached so far); tokens before the recovery point are not in it (the first collected token IS the current token);
   NodePos = start of the first, NodeEnd = end of the last (NodePos when there is none); ranges increasing and disjoint; the token
   the parser continues with lies at or after NodeEnd *)
Theorem C10_handler : forall h l, reached l ->
  exists bd lf col l0 m,
    handle h l = Some (bd, lf) /\
    b_toks bd = col /\ path l col l0 /\ nest_after h 0 col = Some m /\ stopped h m l0 /\
    (lf = l0 \/ (decide h m (t_kind (l_tok l0)) = SplitStop /\ lf = split_token l0)) /\
    b_pos bd = t_pos (l_tok l) /\ b_end bd = last_end col (t_pos (l_tok l)) /\
    match col with [] => True | t :: r => t = l_tok l /\ ordered (t_end t) r end /\
    (col <> [] -> b_end bd <= t_pos (l_tok l0)).
Proof. exact handle_spec. Qed.
Print Assumptions C10_handler.

(* Raw of every token on such a path is the input slice [Pos, End) *)
Theorem C10_tokens_are_input_slices : forall l ts l', path l ts l' -> lex_inv l -> tok_slice (l_buf l) (l_tok l) ->
  Forall (tok_slice (l_buf l)) ts /\ tok_slice (l_buf l) (l_tok l') /\ l_buf l' = l_buf l /\ lex_inv l'.
Proof. exact path_slices. Qed.
Print Assumptions C10_tokens_are_input_slices.

(* the states saved while parsing without error are states of the recovery-mode scan: where the public lexer returns a token,
   the recovery-mode lexer returns the same state *)
Theorem C10_public_step_is_recovery_step : forall l l', next_token false l = LOk l' -> next_token true l = LOk l'.
Proof. exact public_step_is_np_step. Qed.
Print Assumptions C10_public_step_is_recovery_step.

(* every state reached by lexing satisfies the hypothesis *)
Theorem C10_reached_is_preserved : forall l l', reached l -> np_step l l' -> reached l'.
Proof. intros l l' R N. apply (step_reached l l' R N). Qed.
Print Assumptions C10_reached_is_preserved.

Example C10_reached_initially : forall buf, reached (init_lexer buf).
Proof. intros buf. split; [apply init_inv|reflexivity]. Qed.

(* non-vacuity: the expression handler on  "(1 + ) , x"  from the start: skips  ( 1 + )  and stops at the comma *)
Example C10_example :
  match next_token true (init_lexer (bs "(1 + /*c*/ ) , x")) with
  | LOk l => match handle HExpr l with
             | Some (bd, lf) => b_pos bd = 0 /\ b_end bd = 12 /\ length (b_toks bd) = 4 /\ t_kind (l_tok lf) = bs ","
             | None => False
             end
  | _ => False
  end.
Proof. vm_compute. repeat split; reflexivity. Qed.

(* ---- BadType nodes of the total model of ParseType (Parse/TypeRecover.v, tied to ParseType on whole trees in every run): the node holds,
   in order and once each, exactly a prefix of the tokens from the first token of the failed activation; NodePos is the start of that
   token, NodeEnd the end of the last collected one (NodePos when none); parsing continues right after them -- at the same token, or at the
   second half of a ">>" whose first half closed a bracket opened inside the skipped text; exactly one error is appended ---- *)
From Verif Require Import Parse.ExprModel Parse.TypeModel Parse.TypeRecover Parse.TypeRecoverProofs.
Theorem C10_bad_type_holds_the_skipped_tokens : forall ts p e t rest e', recover ts p e = ROk (t, rest) e' ->
  exists sk, t = RBad (ppos (cur ts)) (end_of (ppos (cur ts)) sk) sk /\ e' = (e ++ [p])%list /\
    (ts = (sk ++ rest)%list \/ exists x r, ts = (sk ++ x :: r)%list /\ rest = half_keep x :: r /\ kis x ">>" = true).
Proof. exact recover_spec. Qed.
Print Assumptions C10_bad_type_holds_the_skipped_tokens.

(* ---- BadDDL nodes of the statement family (Parse/StmtModel.v): a rejected statement becomes a Bad node that holds exactly the tokens of
   the piece -- all of them, in order, from its first token to the one before the terminator -- with NodePos the start of the first and
   NodeEnd the end of the last; parsing resumes at the terminator ---- *)
From Verif Require Import Parse.StmtModel Parse.StmtProofs.
Theorem C10_bad_ddl_holds_the_whole_piece : forall p k d r, p <> [] -> Forall plainT p -> theaded k -> sp_ddl (p ++ k) = Some (d, r, 1) ->
  d = DBad false (ppos (cur p)) (last_pend (ppos (cur p)) p) p /\ r = k.
Proof. exact sp_ddl_bad. Qed.
Print Assumptions C10_bad_ddl_holds_the_whole_piece.

(* the same under ParseStatement, whichever recover point catches the failure (BadDDL from parseDDL, BadStatement from
   parseStatementInternal) *)
Theorem C10_bad_statement_holds_the_whole_piece : forall p k d r, p <> [] -> Forall plainT p -> theaded k -> sp_stmt (p ++ k) = Some (d, r, 1%nat) ->
  (exists lvl, d = DBad lvl (ppos (cur p)) (last_pend (ppos (cur p)) p) p) /\ r = k.
Proof. exact sp_stmt_bad. Qed.
Print Assumptions C10_bad_statement_holds_the_whole_piece.
