(* Property C02: unparse is lossless.  Printer-side obligations for all node types; see also Properties/C01.v. *)
From Verif Require Import Tree.Tree Bytes.Quote Tree.Printer Tree.Checkers Tree.PrinterProofs GenChecks.
From Verif Require Import Gen.Schema Gen.PrintProg.
Local Open Scope string_scope.

(* SQL() prints every field of its node: nothing the parser stored in a non-position field is ignored by the printer
   (the exception is the recorded finding Join.Method; IntLiteral.Base, SetNoSkipRange.NoSkipRange, BadQueryExpr.Hint and the
   BadNode range are derived fields) *)
Theorem C02_no_stored_field_is_dropped :
  forall ty f, In (ty, f) (unread_fields schema sql_prog) -> (ty, f) = ("Join", "Method").
Proof.
  intros ty f H. pose proof unread_fields_checked as C. rewrite forallb_forall in C.
  specialize (C _ H). apply pair_mem_in in C. destruct C as [C|[]]. symmetry. exact C.
Qed.
Print Assumptions C02_no_stored_field_is_dropped.

Theorem C02_unread_field_is_invisible : forall ip prog ty b ρ ρ' sp,
  assoc ty prog = Some b -> b <> BOpaque ->
  (forall f, In f (used_fields prog ty) -> assoc f ρ = assoc f ρ') ->
  run_prog ip prog ty ρ sp = run_prog ip prog ty ρ' sp.
Proof. exact sql_ignores_unread_fields. Qed.
Print Assumptions C02_unread_field_is_invisible.
