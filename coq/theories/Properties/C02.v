(* Property C02: unparse is lossless.  Printer-side obligations for all node types; see also Properties/C01.v. *)
From Verif Require Import Tree.Tree Bytes.Quote Tree.Printer Tree.Checkers Tree.PrinterProofs GenChecks.
From Verif Require Import Gen.Schema Gen.PrintProg.
Local Open Scope string_scope.

(* SQL() prints every field of its node: nothing the parser stored in a non-position field is ignored by the printer
   (the exception is the recorded finding Join.Method; IntLiteral.Base, SetNoSkipRange.NoSkipRange, BadQueryExpr.Hint and the
   BadNode range are derived fields) *)
Theorem C02_no_stored_field_is_dropped :
  forall ty f, In (ty, f) (unread_fields schema sql_prog) -> (ty, f) = ("Join", "Method").
Proof.
  intros ty f H. pose proof unread_fields_checked as C. rewrite forallb_forall in C.
  specialize (C _ H). apply pair_mem_in in C. destruct C as [C|[]]. symmetry. exact C.
Qed.
Print Assumptions C02_no_stored_field_is_dropped.

Theorem C02_unread_field_is_invisible : forall ip prog ty b ρ ρ' sp,
  assoc ty prog = Some b -> b <> BOpaque ->
  (forall f, In f (used_fields prog ty) -> assoc f ρ = assoc f ρ') ->
  run_prog ip prog ty ρ sp = run_prog ip prog ty ρ' sp.
Proof. exact sql_ignores_unread_fields. Qed.
Print Assumptions C02_unread_field_is_invisible.

(* ---- the type grammar: token-level round trip as a theorem.  What ParseType's model accepts spells back to the tokens it was given: the
   spelling [zspell] of the returned tree equals the consumed token list (">>" read as two ">") up to the printer's two canonicalisations --
   builtin type names in upper case (token relation at norm = to_upper: same kind, same identifier name up to case), an empty struct as
   STRUCT<> ("<>" read as "<" ">" on both sides).  With the per-run checked hypothesis of C01_type_roundtrip (lexing SQL() gives zspell of
   the tree) this is lex(SQL(parse x)) = lex x modulo these canonicalisations ---- *)
From Verif Require Import Parse.ExprModel Parse.TypeModel Parse.TypeProofs Parse.TypeRespell Parse.TypeRoundTrip Parse.TypeTokens.
Theorem C02_type_tokens_round_trip : forall ts t r, last_eof ts -> parse_type ts = Ok (t, r) ->
  exists pre, unfuse ts = (pre ++ unfuse r)%list /\ TypeRespell.tssim to_upper (split_ltgt (zspell t)) (split_ltgt pre).
Proof. exact parse_type_tokens. Qed.
Print Assumptions C02_type_tokens_round_trip.
