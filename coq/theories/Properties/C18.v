(* Property C18: parsing is a pure function -- deterministic, re-entrant, input-independent state.
   Abstract machine: Skel/Effects.v.  Tie to the code: Gen/Globals.v (regenerated summary of every package-level variable
   and every write site in the library packages) with the obligation globals_checked. *)
From Coq Require Import String List.
From Verif Require Import Skel.Effects Tree.Tree Tree.Checkers GenChecks Gen.Globals.
Import ListNotations.

(* Every schedule: if no call writes the shared (package-level) store, the store never changes and each call is exactly
   where it would be after running alone for the number of steps the schedule gave it -- so its result, once it returns,
   is the result of the solo run: independent of other calls, of their order, of concurrency. *)
Theorem C18_noninterference :
  forall (loc val result : Type) (loc_eqb : loc -> loc -> bool) (s : store loc val) (ts : list (prog loc val result)) (sched : list nat),
    Forall (no_write loc val result) ts ->
    fst (run loc val result loc_eqb s ts sched) = s /\
    forall j d, j < length ts ->
      nth j (snd (run loc val result loc_eqb s ts sched)) d = solo loc val result loc_eqb s (nth j ts d) (count j sched).
Proof. exact noninterference. Qed.
Print Assumptions C18_noninterference.

Theorem C18_result_is_solo_result :
  forall (loc val result : Type) (loc_eqb : loc -> loc -> bool) s ts sched j d r,
    Forall (no_write loc val result) ts -> j < length ts ->
    nth j (snd (run loc val result loc_eqb s ts sched)) d = Ret loc val result r ->
    solo loc val result loc_eqb s (nth j ts d) (count j sched) = Ret loc val result r.
Proof. exact result_is_solo_result. Qed.
Print Assumptions C18_result_is_solo_result.

(* no write to the shared store is ever executed, hence no two steps of different calls conflict (data-race freedom of the
   abstract machine) *)
Theorem C18_no_conflicting_steps :
  forall (loc val result : Type) (loc_eqb : loc -> loc -> bool) s ts sched,
    Forall (no_write loc val result) ts ->
    Forall (fun p => is_write loc val result p = false) (snd (run loc val result loc_eqb s ts sched)).
Proof. exact no_write_ever_executed. Qed.
Print Assumptions C18_no_conflicting_steps.

(* For the CURRENT source the premise holds syntactically: the only writes to package-level variables are in init()
   (token.KeywordsMap), there is no go statement and no sync/atomic/unsafe import, and every field written through a
   method receiver belongs to a Parser, Lexer or File -- objects newParser allocates per call. *)
Theorem C18_no_global_writes_in_current_source :
  globals_ok global_writes go_statements concurrency_imports receiver_field_writes ["Parser"; "Lexer"; "File"]%string = true.
Proof. exact globals_checked. Qed.
Print Assumptions C18_no_global_writes_in_current_source.

(* non-vacuity: two readers of one location under an arbitrary schedule *)
Example C18_example :
  let p := Rd nat nat nat 0 (fun v => Rd nat nat nat 0 (fun w => Ret nat nat nat (v + w))) in
  snd (run nat nat nat Nat.eqb (fun _ => 21) [p; p] [1; 0; 0; 1]) = [Ret nat nat nat 42; Ret nat nat nat 42].
Proof. reflexivity. Qed.
