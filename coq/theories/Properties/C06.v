(* Property C06: node positions are exact -- input[Pos:End] is precisely the node's own text.
   Fragment: the extent [epos, eend) of every result is EXACTLY the run of tokens consumed for it (no token too short, none
   too long) -- Parse/SpanProofs.v; the generated Pos()/End() compute epos/eend (Parse/Span.v).
   The re-parse clauses (a)/(b) are evaluated on the implementation (slice-and-reparse, replace-and-reparse). *)
From Verif Require Import Base.Bytes Tree.Tree Tree.PosLang Parse.ExprModel Parse.ExprFacts Parse.Span Parse.SpanProofs.
From Verif Require Import Gen.Schema Gen.PosImpl.
Local Open Scope Z_scope.

Theorem C06_generated_positions_on_fragment : forall e,
  pe gbody geval_body schema pos_impl (to_tree e) = Some (epos e, eend e).
Proof. exact pe_to_tree. Qed.
Print Assumptions C06_generated_positions_on_fragment.

(* exactness: the consumed tokens c are exactly those between Pos and End: c is non-empty, Pos is the start of its first token and
   End the end of its last token; the tokens after it (rest) start at or after End *)
Theorem C06_extent_is_the_consumed_tokens : forall ts e rest, input_ok ts -> parse_expr ts = Ok (e, rest) ->
  exists c, c <> [] /\ ts = c ++ rest /\ SP e /\ epos e = ppos (cur ts) /\ eend e = pend (lastt c) /\ input_ok rest.
Proof. exact parse_expr_span. Qed.
Print Assumptions C06_extent_is_the_consumed_tokens.

Theorem C06_extent_of_every_sub_parse : forall f m ts e rest, input_ok ts -> P f m ts = Ok (e, rest) -> Spec m ts rest e.
Proof. exact span. Qed.
Print Assumptions C06_extent_of_every_sub_parse.

(* ---- types: every position field of an accepted type IS the position of the token the documentation names (Parse/TypeProofs.v):
   the accepted token list is a sentence of the grammar Tr, and Tr assigns SimpleType.NamePos / ArrayType.Array / StructType.Struct the
   start of the first token, Gt the byte of the closing bracket (the second byte of a fused ">>" where applicable, the second byte of
   "<>" for an empty struct), identifiers the extent of their token ---- *)
From Verif Require Import Parse.TypeModel Parse.TypeProofs.
Theorem C06_type_positions_are_token_positions : forall ts t r, last_eof ts -> parse_type ts = Ok (t, r) ->
  Tr t (unfuse ts) (unfuse r) /\ kis (cur r) K_eof = true.
Proof. exact parse_type_sound. Qed.
Print Assumptions C06_type_positions_are_token_positions.
