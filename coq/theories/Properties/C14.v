(* Property C14: the lexer conforms to the GoogleSQL lexical structure.
   Lex/Reference.v is a reference lexer written from the lexical-structure page in a different style from lexer.go (regular-
   expression-like recognisers, two-pass literals, longest-match operator table).  The theorems below say that the line-by-line
   model of lexer.go (Lex/Lexer.v, tied to the Go code by exhaustive correspondence in C13/C14) computes exactly the reference on
   EVERY byte string: same acceptance, same token kinds, same token texts, same decoded values, same integer bases. *)
From Verif Require Import Base.Bytes Base.Utf8 Gen.Keywords Lex.Lexer Lex.Reference Lex.RefProofs Lex.RefQuoted Lex.RefToken Lex.RefLoop.

Theorem C14_lexer_is_the_reference : forall buf,
  match lex_all buf with
  | LOk ts => ref_lex buf = Some (map proj ts)
  | LErr _ => ref_lex buf = None
  | LCrash => False
  end.
Proof. exact lex_all_is_reference. Qed.
Print Assumptions C14_lexer_is_the_reference.

(* the pieces, each for all inputs *)
(* one token, any previous token kind *)
Theorem C14_one_token : forall last s, proj_c (consume_token false last s) = token_at last s.
Proof. exact token_ref. Qed.
Print Assumptions C14_one_token.

(* after the dot of a path expression *)
Theorem C14_field_token : forall last s, proj_c (consume_field_token false last s) = field_token_at last s.
Proof. exact field_token_ref. Qed.
Print Assumptions C14_field_token.

(* the number automaton recognises exactly the three regular expressions of the page, and rejects a number glued to a letter *)
Theorem C14_numbers : forall s, proj_c (consume_number false s) = number_at s.
Proof. exact consume_number_ref. Qed.
Print Assumptions C14_numbers.

(* the one-pass loop over quoted content = find the closing delimiter, then decode the body with the escape table;
   it rejects exactly when no closing delimiter exists, a line feed occurs in a one-line literal, an escape is not in the
   table / is cut short / names an invalid code point, or a back-quoted identifier is empty *)
Theorem C14_quoted_content : forall q raw uni isid, qdelim q -> forall fuel s i racc, length s < fuel ->
  Post isid i racc (quoted fuel false q raw uni isid s i racc false) (quoted_at q raw uni s).
Proof. exact quoted_ref. Qed.
Print Assumptions C14_quoted_content.

(* whitespace and comments *)
Theorem C14_trivia : forall fuel s pos rc,
  match trivia fuel false s pos rc with
  | TOk _ _ s' pos' => exists n, trivia_len fuel s = Some n /\ s' = skipn n s /\ pos' = pos + n
  | TBad _ _ _ => False
  | TErr _ _ => trivia_len fuel s = None
  end.
Proof. exact trivia_ref. Qed.
Print Assumptions C14_trivia.

(* sanity of the reference itself on the rows the property names (evaluated, not proved in general) *)
Definition kinds (s : String.string) : option (list (bytes * bytes)) :=
  option_map (map (fun t => match t with (k, _, v, _) => (k, v) end)) (ref_lex (bs s)).

Arguments kinds _%string.

Example C14_reference_rows :
  kinds "SeLeCt x.select + .5 1. 1e-3 0x1F a.1e5" =
    Some [(bs "SELECT", []); (bs "<ident>", bs "x"); (bs ".", []); (bs "<ident>", bs "select"); (bs "+", []); (bs "<float>", []); (bs "<float>", []);
          (bs "<float>", []); (bs "<int>", []); (bs "<ident>", bs "a"); (bs ".", []); (bs "<ident>", bs "1e5"); (bs "<eof>", [])]
  /\ kinds "'\a\b\f\n\r\t\v\\\?\""\'\`\101\x41A\U00000041'" =
    Some [(bs "<string>", [x07; x08; x0c; x0a; x0d; x09; x0b; x5c; x3f; x22; x27; x60; x41; x41; x41; x41]); (bs "<eof>", [])]
  /\ kinds "'\ud800'" = None /\ kinds "'\U00110000'" = None /\ kinds "b'\u0041'" = None /\ kinds "'\400'" = None
  /\ kinds "'�'" = Some [(bs "<string>", [xef; xbf; xbd]); (bs "<eof>", [])]
  /\ kinds "1a" = None /\ kinds "1e" = None /\ kinds "0x" = None /\ kinds "``" = None /\ kinds "'a" = None /\ kinds "/* a" = None
  /\ kinds "rb'\n' Br""x""" = Some [(bs "<bytes>", bs "\n"); (bs "<bytes>", bs "x"); (bs "<eof>", [])].
Proof. vm_compute. repeat split; reflexivity. Qed.
