"""Shared machinery of the /verif checks: build steps, running harness/driver, evidence, verdicts."""
import fcntl, hashlib, json, os, random, re, subprocess, sys, time

ROOT = os.path.dirname(os.path.dirname(os.path.abspath(__file__)))
REPO = os.environ.get("VERIF_REPO", "/repo")
BUILD = os.path.join(ROOT, "build")
COQ = os.path.join(ROOT, "coq")
EVID = os.path.join(ROOT, "evidence")
REPLAY = os.path.join(EVID, "replay")
HARNESS = os.path.join(BUILD, "harness")
TRANSLATOR = os.path.join(BUILD, "translator")
DRIVER = os.path.join(BUILD, "ocaml", "driver")

GOENV = dict(os.environ, GOFLAGS="-mod=mod", GOPROXY="off", GOSUMDB="off", GOTOOLCHAIN="local",
             CGO_ENABLED="0")

TRUSTED_BASE = [
    "Coq 8.16.1 kernel incl. the vm_compute machine (no native_compute)",
    "extraction (ExtrOcamlBasic only) + OCaml 4.13 driver: trusted for the correspondence, not for theorems",
    "Go harness built from /repo with -tags verif (reflection dump, recover wrappers)",
]


def log(*a):
    print(*a, file=sys.stderr, flush=True)


def sh(cmd, cwd=None, env=None, timeout=None, input=None, check=False):
    p = subprocess.run(cmd, cwd=cwd, env=env, timeout=timeout, input=input,
                       stdout=subprocess.PIPE, stderr=subprocess.PIPE, shell=isinstance(cmd, str))
    if check and p.returncode != 0:
        raise RuntimeError("command failed: %s\n%s\n%s" % (cmd, p.stdout.decode(errors="replace")[-4000:],
                                                             p.stderr.decode(errors="replace")[-4000:]))
    return p


class Lock:
    def __init__(self, name="build"):
        os.makedirs(BUILD, exist_ok=True)
        self.path = os.path.join(BUILD, "." + name + ".lock")

    def __enter__(self):
        self.f = open(self.path, "w")
        fcntl.flock(self.f, fcntl.LOCK_EX)
        return self

    def __exit__(self, *a):
        fcntl.flock(self.f, fcntl.LOCK_UN)
        self.f.close()


def repo_hash():
    """content hash of every non-test Go source (and go.mod) in the repository's working tree"""
    h = hashlib.sha256()
    for d, dirs, files in os.walk(REPO):
        dirs[:] = sorted(x for x in dirs if x not in (".git", "testdata", "docs", "images", "examples"))
        for f in sorted(files):
            if f.endswith(".go") or f == "go.mod":
                p = os.path.join(d, f)
                h.update(p.encode())
                with open(p, "rb") as fh:
                    h.update(fh.read())
    return h.hexdigest()


def write_if_changed(path, data):
    if isinstance(data, str):
        data = data.encode()
    try:
        with open(path, "rb") as f:
            if f.read() == data:
                return False
    except FileNotFoundError:
        pass
    os.makedirs(os.path.dirname(path), exist_ok=True)
    with open(path, "wb") as f:
        f.write(data)
    return True


def build_go():
    """(re)build harness and translator against the current /repo working tree (hooks enabled)"""
    for name in ("harness", "translator"):
        d = os.path.join(ROOT, name)
        if not os.path.isdir(d):
            continue
        with open(os.path.join(REPO, "go.sum"), "rb") as f:
            write_if_changed(os.path.join(d, "go.sum"), f.read())
        p = sh(["go", "build", "-tags", "verif", "-o", os.path.join(BUILD, name), "."], cwd=d, env=GOENV, timeout=600)
        if p.returncode != 0:
            return False, p.stderr.decode(errors="replace")
    return True, ""


def coq_files():
    out = []
    with open(os.path.join(COQ, "_CoqProject")) as f:
        for line in f:
            line = line.strip()
            if line.endswith(".v"):
                out.append(line)
    return out


def build_coq(targets=None, timeout=3000):
    """incremental full .vo build (never -vos); returns (ok, log).  make -k so that one broken
    obligation file does not hide the others."""
    if not os.path.exists(os.path.join(COQ, "Makefile")):
        sh(["coq_makefile", "-f", "_CoqProject", "-o", "Makefile"], cwd=COQ, check=True)
    cmd = ["make", "-k", "-j16"] + (targets or [])
    p = sh(cmd, cwd=COQ, timeout=timeout)
    return p.returncode == 0, (p.stdout + p.stderr).decode(errors="replace")


def vo_fresh(vfile):
    """is theories/X.vo present and newer than its source?"""
    v = os.path.join(COQ, vfile)
    vo = v + "o"
    return os.path.exists(vo) and os.path.getmtime(vo) >= os.path.getmtime(v)


def build_driver():
    """extract the models and build the OCaml driver (only when inputs changed)"""
    ex = os.path.join(COQ, "extract")
    od = os.path.join(BUILD, "ocaml")
    os.makedirs(od, exist_ok=True)
    stamp = os.path.join(od, ".stamp")
    deps = [os.path.join(ex, "Extract.v"), os.path.join(ROOT, "ocaml", "driver.ml"), os.path.join(ROOT, "ocaml", "treedrv.ml")]
    with open(os.path.join(ex, "Extract.v")) as f:
        for m in re.finditer(r"Verif Require Import ([^.]*(?:\.[A-Za-z][^. \n]*)*)\.", f.read()):
            pass
    # depend on every model .vo
    newest = 0
    for vf in coq_files():
        vo = os.path.join(COQ, vf + "o")
        if os.path.exists(vo):
            newest = max(newest, os.path.getmtime(vo))
    for d in deps:
        newest = max(newest, os.path.getmtime(d))
    if os.path.exists(stamp) and os.path.exists(DRIVER) and os.path.getmtime(stamp) >= newest:
        return True, ""
    p = sh(["coqc", "-Q", "../theories", "Verif", "Extract.v"], cwd=ex, timeout=1200)
    if p.returncode != 0:
        return False, (p.stdout + p.stderr).decode(errors="replace")
    for f in ("models.ml", "models.mli"):
        with open(os.path.join(ex, f), "rb") as fh:
            write_if_changed(os.path.join(od, f), fh.read())
    for src in ("treedrv.ml", "driver.ml"):
        with open(os.path.join(ROOT, "ocaml", src), "rb") as fh:
            write_if_changed(os.path.join(od, src), fh.read())
    p = sh(["ocamlfind", "ocamlopt", "-O3", "-w", "-a", "models.mli", "models.ml", "treedrv.ml", "driver.ml", "-o", "driver"],
           cwd=od, timeout=1200)
    if p.returncode != 0:
        return False, (p.stdout + p.stderr).decode(errors="replace")
    with open(stamp, "w") as f:
        f.write(str(time.time()))
    return True, ""


def run_translator():
    """regenerate coq/theories/Gen/*.v from the current /repo; only changed files are rewritten"""
    if not os.path.exists(TRANSLATOR):
        return True, ""
    tmp = os.path.join(BUILD, "gen_tmp")
    os.makedirs(tmp, exist_ok=True)
    p = sh([TRANSLATOR, "-repo", REPO, "-out", tmp], timeout=600)
    if p.returncode != 0:
        return False, (p.stdout + p.stderr).decode(errors="replace")
    gen = os.path.join(COQ, "theories", "Gen")
    for f in sorted(os.listdir(tmp)):
        if f.endswith(".v") or f.endswith(".json"):
            with open(os.path.join(tmp, f), "rb") as fh:
                dst = os.path.join(gen if f.endswith(".v") else BUILD, f)
                write_if_changed(dst, fh.read())
    return True, p.stdout.decode(errors="replace")


def prepare(need_driver=True):
    """Everything a check needs, rebuilt from /repo's current working tree.  Serialised by a lock;
    all steps are incremental, so twenty checks on an unchanged tree do the work once."""
    t0 = time.time()
    status = {"go": True, "translator": True, "coq": True, "driver": True, "log": ""}
    with Lock():
        ok, lg = build_go()
        status["go"] = ok
        if not ok:
            status["log"] += "GO BUILD FAILED\n" + lg
            return status
        ok, lg = run_translator()
        status["translator"] = ok
        if not ok:
            status["log"] += "TRANSLATOR FAILED\n" + lg
        ok, lg = build_coq()
        status["coq"] = ok
        status["coq_log"] = lg
        if not ok:
            status["log"] += "COQ BUILD INCOMPLETE\n" + lg[-3000:]
        if need_driver:
            ok, lg = build_driver()
            status["driver"] = ok
            global DRIVER_OK
            DRIVER_OK = ok
            if not ok:
                status["log"] += "DRIVER BUILD FAILED\n" + lg[-3000:]
    status["prepare_s"] = round(time.time() - t0, 2)
    return status


def coq_property(pid, extra_files=()):
    """re-check Properties/<pid>.v (cheap: dependencies are compiled) and collect what it prints.
    Returns dict(ok, theorems, axioms, log)."""
    vf = "theories/Properties/%s.v" % pid
    res = {"ok": False, "theorems": [], "axioms": [], "log": ""}
    for f in list(extra_files) + [vf]:
        if f != vf and not vo_fresh(f):
            res["log"] += "not compiled: %s\n" % f
            return res
    src = open(os.path.join(COQ, vf)).read()
    res["theorems"] = re.findall(r"^\s*Theorem\s+(\w+)", src, re.M)
    for bad in ("Admitted", "admit.", "Axiom ", "Parameter ", "Conjecture "):
        if bad in src:
            res["log"] += "forbidden keyword in property file: %s\n" % bad
            return res
    p = sh(["coqc", "-Q", "theories", "Verif", vf], cwd=COQ, timeout=1800)
    out = (p.stdout + p.stderr).decode(errors="replace")
    res["log"] = out[-6000:]
    if p.returncode != 0:
        return res
    closed = out.count("Closed under the global context")
    ax = re.findall(r"^Axioms:\n((?:.+\n)+)", out, re.M)
    axioms = sorted(set(l.split(":")[0].strip() for blk in ax for l in blk.splitlines() if re.match(r"^\S", l)))
    res["axioms"] = axioms
    res["closed"] = closed
    res["ok"] = True
    return res


def forbidden_scan():
    """no Admitted / admit / Axiom / Parameter / Conjecture / guard switches anywhere in the development"""
    bad = []
    pat = re.compile(r"\b(Admitted|admit|Axiom|Axioms|Parameter|Parameters|Conjecture|Hypothesis|Variable|bypass_check)\b|Unset Guard|Unset Positivity|Unset Universe|type-in-type")
    for d, _, files in os.walk(os.path.join(COQ)):
        for f in files:
            if not f.endswith(".v"):
                continue
            p = os.path.join(d, f)
            depth = 0
            for i, line in enumerate(open(p, errors="replace"), 1):
                code = re.sub(r"\(\*.*?\*\)", "", line)
                if re.match(r"\s*Section\b", code):
                    depth += 1
                if re.match(r"\s*End\b", code) and depth > 0:
                    depth -= 1
                m = pat.search(code)
                if m:
                    w = m.group(0)
                    if w in ("Variable", "Hypothesis", "Variables", "Hypotheses") and depth > 0:
                        continue
                    bad.append("%s:%d: %s" % (os.path.relpath(p, ROOT), i, line.strip()[:100]))
    return bad


class DriverMissing(Exception):
    """the extracted driver could not be built from the current tree (a proof or the extraction broke): model-side runs are skipped, the
    implementation-level search for a failing input still runs"""


DRIVER_OK = True


def run_lines(binary, args, input_text=None, timeout=3000):
    if binary == DRIVER and not DRIVER_OK:
        raise DriverMissing()
    p = sh([binary] + list(args), input=input_text.encode() if isinstance(input_text, str) else input_text, timeout=timeout)
    if p.returncode != 0:
        raise RuntimeError("%s %s failed (%d): %s" % (binary, args, p.returncode, p.stderr.decode(errors="replace")[-2000:]))
    return p.stdout.decode(errors="replace").splitlines()


def first_diffs(a, b, limit=5):
    out = []
    for i, (x, y) in enumerate(zip(a, b)):
        if x != y:
            out.append((i, x, y))
            if len(out) >= limit:
                break
    if len(a) != len(b) and len(out) < limit:
        out.append((min(len(a), len(b)), "<len %d>" % len(a), "<len %d>" % len(b)))
    return out


def hexs(b):
    if isinstance(b, str):
        b = b.encode("latin-1")
    return b.hex() if b else "-"


def unhex(h):
    return b"" if h == "-" else bytes.fromhex(h)


def load_known():
    p = os.path.join(ROOT, "known_findings.json")
    if not os.path.exists(p):
        return []
    return json.load(open(p)).get("findings", [])


class Result:
    """Collects what one check run did and turns it into evidence + exit code."""

    def __init__(self, pid, tier, seed):
        self.pid, self.tier, self.seed = pid, tier, seed
        self.t0 = time.time()
        self.obligations = 0
        self.discharged = 0
        self.broken = []          # names of theorems / obligations / correspondences that no longer check
        self.violations = []      # dict(what, replay)  concrete failing inputs
        self.known_hits = []
        self.cov = {"evaluations": 0, "distinct_nontrivial": 0, "rule": "", "samples": []}
        self.extra = {}
        self.assumptions = []
        self.theorems = []
        self.axioms = []
        self.trusted = list(TRUSTED_BASE)
        self.checker_cmd = "make -C coq (coqc, full .vo) + coqc theories/Properties/%s.v" % pid
        self.known = [k for k in load_known() if k.get("property") == pid and k.get("status", "open") == "open"]

    def obligation(self, name, ok, detail=""):
        self.obligations += 1
        if ok:
            self.discharged += 1
        else:
            self.broken.append({"name": name, "detail": detail[-1500:]})

    def add_cases(self, n, distinct_nontrivial, samples=()):
        self.cov["evaluations"] += n
        self.cov["distinct_nontrivial"] += distinct_nontrivial
        for s in samples:
            if len(self.cov["samples"]) < 12:
                self.cov["samples"].append(s)

    def match_known(self, key_fields):
        """key_fields: dict describing the failing case; a known finding matches when every key it
        lists under 'match' equals the case's value"""
        for k in self.known:
            ms = k.get("match", [])
            if isinstance(ms, dict):
                ms = [ms]
            for m in ms:
                ok = bool(m)
                for f, v in m.items():
                    if f == "key_regex":
                        ok = ok and re.search(v, str(key_fields.get("key", ""))) is not None
                    elif f == "tag":
                        ok = ok and v in (key_fields.get("tags") or [])
                    else:
                        ok = ok and str(key_fields.get(f)) == str(v)
                if ok:
                    return k
        return None

    def violation(self, what, case, key_fields=None):
        k = self.match_known(key_fields or case)
        if k is not None:
            if k["id"] not in [h["id"] for h in self.known_hits]:
                self.known_hits.append({"id": k["id"], "what": k.get("what", what)})
            return False
        os.makedirs(REPLAY, exist_ok=True)
        body = dict(case)
        body.update({"property": self.pid, "what": what})
        blob = json.dumps(body, sort_keys=True)
        path = os.path.join(REPLAY, "%s-%s.json" % (self.pid, hashlib.sha1(blob.encode()).hexdigest()[:12]))
        with open(path, "w") as f:
            json.dump(body, f, indent=1, sort_keys=True)
        if len(self.violations) < 20:
            self.violations.append({"what": what, "replay": path})
        return True

    def finish(self, level="proof"):
        # a broken obligation / correspondence without a concrete failing input is still a violation
        lines = []
        for h in self.known_hits:
            lines.append("KNOWN-FINDING: property=%s %s" % (self.pid, h["what"]))
        for v in self.violations:
            lines.append("VIOLATION property=%s replay=%s" % (self.pid, v["replay"]))
        if self.broken and not self.violations:
            os.makedirs(REPLAY, exist_ok=True)
            path = os.path.join(REPLAY, "%s-broken-obligation.json" % self.pid)
            with open(path, "w") as f:
                json.dump({"property": self.pid, "no_longer_checks": self.broken,
                           "note": "search of model and implementation found no concrete failing input"}, f, indent=1)
            lines.append("VIOLATION property=%s replay=%s no-failing-input-found" % (self.pid, path))
        cov = dict(self.cov)
        cov.update({"obligations": self.obligations, "discharged": self.discharged,
                    "checker_cmd": self.checker_cmd, "trusted_base": self.trusted,
                    "theorems": self.theorems, "axioms": self.axioms or ["none (Closed under the global context)"],
                    "broken": self.broken, "known_findings_hit": self.known_hits})
        cov.update(self.extra)
        if not cov["samples"]:
            cov["samples"] = ["(no cases)"]
        ev = {"property_id": self.pid, "tier": self.tier, "seed": self.seed, "level": level,
              "coverage": cov, "assumptions": self.assumptions,
              "wall_s": round(time.time() - self.t0, 2),
              "violations": len(self.violations) + (1 if self.broken and not self.violations else 0)}
        os.makedirs(EVID, exist_ok=True)
        with open(os.path.join(EVID, "%s.json" % self.pid), "w") as f:
            json.dump(ev, f, indent=1)
        for l in lines:
            print(l)
        bad = any(l.startswith("VIOLATION") for l in lines)
        print("%s %s tier=%s seed=%d obligations=%d/%d cases=%d wall=%.1fs" % (
            self.pid, "FAIL" if bad else "ok", self.tier, self.seed, self.discharged, self.obligations,
            self.cov["evaluations"], time.time() - self.t0))
        return 1 if bad else 0


# ---------------------------------------------------------------- lexer correspondence helpers
from concurrent.futures import ThreadPoolExecutor


def _run_out(cmd, inp=None):
    if cmd and cmd[0] == DRIVER and not DRIVER_OK:
        raise DriverMissing()
    p = sh(cmd, input=inp, timeout=7200)
    if p.returncode != 0:
        raise RuntimeError("%s failed: %s" % (cmd, p.stderr.decode(errors="replace")[-2000:]))
    return p.stdout.decode(errors="replace").splitlines()


def lex_exhaustive(alphabet, maxlen, mode, prefix=b"", proj="full", oracle="-"):
    """Compare Go lexer and extracted model on every string prefix+w, |w| <= maxlen symbols.
    Both sides enumerate in the same order and exchange one rolling hash per 4096 strings; a differing
    block is re-run verbosely.  Returns dict(n, mismatches=[(hex, go, model)], fails=[(hex, why)])."""
    alpha = ",".join(hexs(a) for a in alphabet)
    k = len(alphabet)
    firsts = list(range(k)) if maxlen >= 3 else [-1]
    base = ["lex-exh", alpha, str(maxlen), mode, hexs(prefix)]

    def one(first):
        g = _run_out([HARNESS] + base + [str(first), proj, oracle])
        m = _run_out([DRIVER] + base + [str(first), proj, "-"])
        fails = [l for l in g if l.startswith("FAIL ")]
        nt = [l.split() for l in g if l.startswith("NONTRIV ")]
        nt3 = sum(int(x[1]) for x in nt); nt4 = sum(int(x[2]) for x in nt)
        g = [l for l in g if not l.startswith("FAIL ") and not l.startswith("NONTRIV ")]
        mism = []
        if g != m:
            for (i, a, b) in first_diffs(g, m, limit=3):
                label = a.split()[0] if " " in a else b.split()[0]
                # a hash line is labelled with the number of blocks completed (1-based); the verbose mode selects blocks 0-based
                blk = str(int(label) - 1)
                gv = [l for l in _run_out([HARNESS] + base + [str(first), proj, "-", blk]) if not l.startswith("NONTRIV ") and not l.startswith("FAIL ")]
                mv = _run_out([DRIVER] + base + [str(first), proj, "-", blk])
                found = False
                for (_, x, y) in first_diffs(gv, mv, limit=3):
                    mism.append((x.split(" => ")[0], x, y))
                    found = True
                if not found:
                    # the block hashes differ but no differing line was located: still a broken correspondence, never silently dropped
                    mism.append(("block-%s-first-%s" % (blk, first), "hash " + a, "hash " + b))
        return fails, mism, nt3, nt4

    with ThreadPoolExecutor(max_workers=16) as ex:
        results = list(ex.map(one, firsts))
    fails, mism = [], []
    n3 = n4 = 0
    for f, m, a, b in results:
        fails += [(l.split()[1], " ".join(l.split()[2:])) for l in f]
        mism += m
        n3 += a; n4 += b
    n = (k ** (maxlen + 1) - 1) // (k - 1) if firsts == [-1] else (k ** (maxlen + 1) - 1) // (k - 1) - 1 + k
    return {"n": n, "mismatches": mism, "fails": fails, "two_records": n3, "three_records": n4}


def lex_cases(inputs, mode, proj="full"):
    """Go vs model on explicit inputs.  Returns (go_lines, model_lines)."""
    inp = ("\n".join(hexs(s) for s in inputs) + "\n").encode()
    with ThreadPoolExecutor(max_workers=2) as ex:
        fg = ex.submit(_run_out, [HARNESS, "lex-cases", mode, proj], inp)
        fm = ex.submit(_run_out, [DRIVER, "lex-cases", mode, proj], inp)
        g = [l for l in fg.result() if not l.startswith("FAIL ")]   # a watchdog line of the harness; the TIMEOUT verdict line stays
        return g, fm.result()


def lex_prop(oracle, inputs):
    inp = ("\n".join(hexs(s) for s in inputs) + "\n").encode()
    out = _run_out([HARNESS, "lex-prop", oracle], inp)
    return [(l.split()[1], " ".join(l.split()[2:])) for l in out if l.startswith("FAIL ")]
