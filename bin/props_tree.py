"""C19 (generated Pos/End/Walk equal the documentation) and C17 (traversal): checks on the regenerated tables and the
tree-level correspondence between the extracted Coq interpreters and the real methods."""
import os, random, re, subprocess
import vlib, gens
from vlib import hexs


def gen_check(res, want):
    """per-run obligations evaluated by the extracted checkers (diagnostics); the kernel-checked versions are the
    lemmas of GenChecks.v, whose build status std_coq reports"""
    try:
        out = vlib.run_lines(vlib.DRIVER, ["gen-check"])
    except vlib.DriverMissing:
        res.extra.setdefault("skipped_without_driver", []).append("gen_check")
        return {}
    info = {}
    for l in out:
        f = l.split()
        info[f[0]] = l
        if f[0] in want:
            res.obligation("regenerated tables: " + f[0] + " (extracted checker; kernel: GenChecks.v)", f[1] == "true", l)
    res.extra["gen_check"] = out
    return info


def tree_correspondence(res, cases, what):
    """what: list of (label, harness args, driver args).  Returns {label: [(case, go_line, model_line)] mismatches}"""
    inp = gens.case_lines(cases)
    dump = "\n".join(vlib.run_lines(vlib.HARNESS, ["parse-dump"], inp)) + "\n"
    res.extra.setdefault("dump_bytes", 0)
    res.extra["dump_bytes"] += len(dump)
    out = {}
    for label, hargs, dargs in what:
        g = vlib.run_lines(vlib.HARNESS, hargs, inp)
        m = vlib.run_lines(vlib.DRIVER, dargs, dump)
        mism = [(x.split(" => ")[0], x, y) for x, y in zip(g, m) if x != y]
        if len(g) != len(m):
            mism.append(("<length>", str(len(g)), str(len(m))))
        out[label] = (g, m, mism)
    return out


def run_oracle(pid, cases):
    out = vlib.run_lines(vlib.HARNESS, ["parse-prop", pid], gens.case_lines(cases))
    fails = []
    stat = ""
    for l in out:
        if l.startswith("FAIL "):
            head, _, detail = l.partition(" | ")
            f = head.split()
            tags = [t for t in f[4][5:].split(",") if t != "-"] if len(f) > 4 and f[4].startswith("tags=") else []
            fails.append({"entry": f[1], "input_hex": f[2], "key": f[3] if len(f) > 3 else "", "tags": tags, "detail": detail[:400]})
        elif l.startswith("STAT "):
            stat = l
    return fails, stat


def regen_diff(res):
    """the checked-in generated sources are byte for byte what the repository's own generators produce"""
    for tool, target in (("gen-ast-pos", "pos.go"), ("gen-ast-walk", "walk_internal.go")):
        p = vlib.sh(["go", "run", "./tools/" + tool, "-astfile", "ast/ast.go", "-constfile", "ast/ast_const.go"],
                    cwd=vlib.REPO, env=vlib.GOENV, timeout=600)
        if p.returncode != 0:
            res.obligation("tools/%s runs" % tool, False, p.stderr.decode(errors="replace")[-800:])
            continue
        have = open(os.path.join(vlib.REPO, "ast", target), "rb").read()
        same = p.stdout == have
        detail = ""
        if not same:
            a, b = p.stdout.decode(errors="replace").splitlines(), have.decode(errors="replace").splitlines()
            for i, (x, y) in enumerate(zip(a, b)):
                if x != y:
                    detail = "line %d: generator %r, checked in %r" % (i + 1, x[:160], y[:160])
                    break
            else:
                detail = "lengths differ: %d vs %d lines" % (len(a), len(b))
        res.obligation("ast/%s is byte-for-byte the output of tools/%s" % (target, tool), same, detail)
        if not same:
            res.violation("checked-in generated source differs from the generator's output: ast/" + target,
                          {"kind": "regen-diff", "file": "ast/" + target, "detail": detail})


def first_node_diff(g, m):
    """g, m: 'Type:p,e ' lists of the same case; the first differing node"""
    a, b = g.split(" => ")[1].split(), m.split(" => ")[1].split()
    for i, (x, y) in enumerate(zip(a, b)):
        if x != y:
            return "node %d: %s vs %s" % (i, x, y)
    return "node count %d vs %d" % (len(a), len(b))


def c19(res, st, std_coq):
    std_coq(res, "C19", st, ("theories/GenChecks.v",))
    if not (st["go"] and st["driver"]):
        return
    rnd = random.Random(res.seed)
    gen_check(res, ("schema_ok", "pos_tables_ok", "walk_table_ok"))
    regen_diff(res)
    q = res.tier == "quick"
    cases = gens.parser_cases(rnd, 1500 if q else 30000, 300 if q else 6000, 150 if q else 3000)
    cases += [("ParseStatement", s) for s in gens.regression("C19")]
    cases += gens.long_lists()[: 16 if q else 32] + gens.CALL_CLAUSE_PROBES
    r = tree_correspondence(res, cases, [("impl", ["tree-pe", "impl"], ["tree-pe", "impl"]),
                                          ("spec", ["tree-pe", "spec"], ["tree-pe", "spec"])])
    gi, mi, mism_i = r["impl"]
    gs, ms, mism_s = r["spec"]
    nodes = sum(len(l.split(" => ")[1].split()) for l in gi if " => " in l and not l.endswith("PANIC"))
    types = set(t.split(":")[0] for l in gi if " => " in l for t in l.split(" => ")[1].split())
    # the property on the implementation: Pos()/End() == documented expression (our interpreter on the regenerated comments)
    bad = 0
    for (e, s), g, m in zip(cases, gi, ms):
        if g != m:
            bad += 1
            res.violation("Pos()/End() differ from the documented position expression: " + first_node_diff(g, m),
                          {"kind": "c19-pos", "entry": e, "input_hex": hexs(s), "observed": g[-400:], "documented": m[-400:]})
    # the repository's interpreter agrees with the compiled methods
    for (e, s), g, g2 in zip(cases, gi, gs):
        if g != g2:
            bad += 1
            res.violation("tools/util/poslang.EvalPos disagrees with the compiled Pos()/End(): " + first_node_diff(g, g2),
                          {"kind": "c19-interp", "entry": e, "input_hex": hexs(s), "methods": g[-400:], "interpreter": g2[-400:]})
    fails, stat = run_oracle("C19", cases)
    for f in fails:
        res.violation("C19 oracle on the implementation: " + f["key"], dict(f, kind="c19-oracle"))
    # Pos()/End() are functions of the CURRENT field values: every method is called once, then every position field of every node of the
    # returned tree is shifted by 3 in place; the compiled methods and the repository's interpreter of the documented expressions still agree
    mcases = cases[:: 3 if q else 1]
    gm = vlib.run_lines(vlib.HARNESS, ["tree-pe", "impl-mut"], gens.case_lines(mcases))
    sm = vlib.run_lines(vlib.HARNESS, ["tree-pe", "spec-mut"], gens.case_lines(mcases))
    nmut = 0
    for (e, s), a, b in zip(mcases, gm, sm):
        if a != b:
            nmut += 1
            if nmut <= 5:
                res.violation("after position fields are edited in place, Pos()/End() differ from the documented expression over the current values: "
                              + first_node_diff(a, b),
                              {"kind": "c19-mutated", "entry": e, "input_hex": hexs(s), "methods": a[-400:], "interpreter": b[-400:]})
    res.extra["mutated_trees_compared"] = len(gm)
    # the traversal clause on the same trees (slices longer than 256 and 1024 elements included)
    wf, _ = run_oracle("C17", cases)
    for f in wf[:5]:
        res.violation("traversal does not enumerate exactly the node-typed fields in declaration order: " + f["key"] + " " + f["detail"][:200],
                      dict(f, kind="c17-oracle"))
    failed = set(v for v in [hexs(s) for (e, s) in cases]) if bad else set()
    res.obligation("correspondence: model of the compiled methods (Gen/PosImpl.v) == n.Pos()/n.End() on %d nodes" % nodes,
                   not [t for t in mism_i if not bad], "\n".join("%s\n go:    %s\n model: %s" % (a, b[-300:], c[-300:]) for a, b, c in mism_i[:3]))
    res.obligation("correspondence: POS semantics (Tree/PosLang.v on Gen/PosSpec.v) == tools/util/poslang.EvalPos on %d nodes" % nodes,
                   not [t for t in mism_s if not bad], "\n".join("%s\n go:    %s\n model: %s" % (a, b[-300:], c[-300:]) for a, b, c in mism_s[:3]))
    res.add_cases(len(cases), len(set(cases)), [gi[0][:300], gi[len(gi) // 2][:300]])
    res.extra["nodes_evaluated"] = nodes
    res.extra["node_types_covered"] = len(types)
    res.extra["node_types_not_covered"] = sorted(set(_schema_types()) - types)
    res.extra["oracle_stat"] = stat
    res.cov["rule"] = ("all 264x2 method/documentation pairs are decided by the kernel (pos_tables_checked); correspondence inputs: every upstream "
                       "corpus file under every matching entry point, type expressions, seeded mutations (error-recovered trees), token soups, "
                       "';'-joined lists; on every node of every returned tree: n.Pos()/n.End(), poslang.EvalPos, the extracted model of the "
                       "compiled methods and the extracted POS semantics on the regenerated doc comments must all agree; "
                       "non-trivial/distinct = distinct (entry, input) pairs")
    res.assumptions += ["the translator (Go, go/parser only) represents ast.go / pos.go / walk_internal.go faithfully; validated on every run by "
                        "executing the extracted interpreters against the real methods on every node of every dumped tree",
                        "pos_util.go (nodePos, posChoice, ...) is modelled by hand in Tree/PosLang.v (geval_*), same validation"]


_SCHEMA_TYPES = None


def _schema_types():
    global _SCHEMA_TYPES
    if _SCHEMA_TYPES is None:
        src = open(os.path.join(vlib.COQ, "theories", "Gen", "Schema.v")).read()
        body = src.split("Definition ifaces")[0]
        _SCHEMA_TYPES = re.findall(r'^  \("(\w+)", \[', body, re.M)
    return _SCHEMA_TYPES


def c17(res, st, std_coq):
    std_coq(res, "C17", st, ("theories/GenChecks.v",))
    if not (st["go"] and st["driver"]):
        return
    rnd = random.Random(res.seed)
    gen_check(res, ("schema_ok", "walk_table_ok"))
    q = res.tier == "quick"
    cases = gens.parser_cases(rnd, 1000 if q else 20000, 200 if q else 4000, 150 if q else 3000)
    cases += [("ParseStatement", s) for s in gens.regression("C17")]
    # error-recovered trees from systematic error injection (Bad nodes nested in every production; hints in every place)
    cases += gens.long_lists()[: 16 if q else 32] + gens.CALL_CLAUSE_PROBES
    inj = gens.injection_cases(rnd, q)
    cases += inj if not q else [c for i, c in enumerate(inj) if i % 3 == 0 or b"@{" in c[1]]
    prunes = [(0, 0), (2, 1), (3, 0), (5, 2)] if q else [(0, 0), (2, 0), (2, 1), (3, 0), (3, 1), (3, 2), (5, 2), (7, 3)]
    what = [("walk %d/%d" % po, ["tree-walk", str(po[0]), str(po[1])], ["tree-walk", str(po[0]), str(po[1])]) for po in prunes]
    what.append(("walkmany", ["tree-walkmany"], ["tree-walkmany"]))
    # histories: the same traces inside a sequence of aborted (panicking visitor), early-stopped and nested traversals
    what += [("history %d/%d" % po, ["tree-walk-h", str(po[0]), str(po[1])], ["tree-walk", str(po[0]), str(po[1])]) for po in prunes[:2]]
    r = tree_correspondence(res, cases, what)
    # implementation-level oracle (reflection based, independent of the model): Walk/Inspect/Preorder/WalkMany
    fails, stat = run_oracle("C17", cases)
    for f in fails:
        res.violation("traversal differs from the node-typed fields in declaration order: " + f["key"] + " " + f["detail"][:200],
                      dict(f, kind="c17-oracle"))
    failed = set(f["input_hex"] for f in fails)
    events = 0
    for label, (g, m, mism) in r.items():
        rest = [t for t in mism if t[0].split()[-1] not in failed]
        events += sum(l.count(";") + 1 for l in g)
        res.obligation("correspondence %s: ast.Walk callback trace == extracted Tree/Walk.v model (%d cases)" % (label, len(g)),
                       not rest, "\n".join("%s\n go:    %s\n model: %s" % (a, b[-300:], c[-300:]) for a, b, c in rest[:3]))
        if rest and not fails:
            # the model is proved equal to the recursive pre-order specification, so a disagreement is a concrete trace
            a, b, c = rest[0]
            res.violation("ast.Walk's callback trace differs from the proved pre-order specification (%s)" % label,
                          {"kind": "c17-trace", "case": a, "go": b[-600:], "spec": c[-600:]})
    g0 = r["walk 0/0"][0]
    res.add_cases(len(cases) * len(what), len(set(cases)), [g0[0][:300], g0[len(g0) // 2][:300]])
    res.extra["callback_events_compared"] = events
    res.extra["oracle_stat"] = stat
    res.cov["rule"] = ("inputs as for C19 (corpus under every entry point, mutations giving error-recovered trees, soups, lists); for each returned "
                       "tree and each pruning schedule (prune the k-th Visit when k>0 and k mod m = o; m=0 never): the complete callback trace "
                       "(Visit/VisitMany with the path built from Field/Index callbacks) of ast.Walk / ast.WalkMany is compared with the extracted "
                       "walk_main model, which is proved equal to the recursive pre-order specification; Inspect/Preorder early stop via the "
                       "reflection-based oracle; 'history' runs produce the same traces inside a sequence of traversals aborted by a panicking visitor, "
                       "early-stopped Preorder loops and nested (re-entrant) Inspect calls - Walk must be a function of its arguments; distinct = distinct (entry, input) pairs")
    res.assumptions += ["VisitMany/Field/Index return non-nil visitors (a nil there is a nil-interface call in walk.go)",
                        "visitors are modelled as arbitrary callbacks over an explicit global state (covers closures and recorders)"]
