"""C12: SplitRawStatements"""
import random
import vlib, gens
from vlib import hexs


def joined_statements(rnd, n):
    """';'-joined lists of corpus statements with arbitrary trivia around the separators"""
    corp = [s for (k, _, s) in gens.corpus(("ddl", "dml", "query", "statement"))]
    triv = [b"", b" ", b"\n", b"/*c*/", b" -- x\n", b"# y\n", b"/*;*/", b"\t", b" /* a */ ", b"--;\n"]
    lits = [b"", b"';'", b'"a;b"', b"`x;y`", b"'''\n;'''", b"r';\\'", b'b";"']
    out = []
    for _ in range(n):
        parts = []
        for _ in range(rnd.randrange(0, 5)):
            st = rnd.choice(corp).strip() if rnd.random() < 0.8 else rnd.choice(lits)
            parts.append(rnd.choice(triv) + st + rnd.choice(triv))
        s = b";".join(parts)
        if rnd.random() < 0.4:
            s += b";" + rnd.choice(triv)
        out.append(s)
    return out


def c12(res, st, std_coq, lexer_inputs):
    std_coq(res, "C12", st)
    if not (st["go"] and st["driver"]):
        return
    rnd = random.Random(res.seed)
    n5 = 5 if res.tier == "quick" else 6
    total, mism, fails = 0, [], []
    r = vlib.lex_exhaustive(gens.LEX_ALPHABET, n5, "p", b"", "fn:split", "c12")
    total += r["n"]; mism += r["mismatches"]; fails += r["fails"]; multi_exh = r["two_records"]
    # the same alphabet after a comment opener (star runs of either parity before the closer), a path dot and a number with exponent
    for pre in (b"/*", b"a;/*", b"a.", b"1e"):
        r = vlib.lex_exhaustive(gens.LEX_ALPHABET, 4 if res.tier == "quick" else 5, "p", pre, "fn:split", "c12")
        total += r["n"]; mism += r["mismatches"]; fails += r["fails"]; multi_exh += r["two_records"]
    ins = lexer_inputs(rnd, res.tier, "C12") + joined_statements(rnd, 1500 if res.tier == "quick" else 30000)
    inp = ("\n".join(hexs(x) for x in ins) + "\n").encode()
    g = vlib._run_out([vlib.HARNESS, "split-cases"], inp)
    m = vlib._run_out([vlib.DRIVER, "split-cases"], inp)
    for x, y in zip(g, m):
        if x != y:
            mism.append((x.split(" => ")[0], x, y))
    out = vlib._run_out([vlib.HARNESS, "split-prop"], inp)
    fails += [(l.split()[1], " ".join(l.split()[2:])) for l in out if l.startswith("FAIL ")]
    for (h, why) in fails:
        res.violation("SplitRawStatements does not partition the input at ';' tokens: " + why,
                      {"kind": "split-c12", "input_hex": h, "why": why})
    failed = set(h for (h, _) in fails)
    rest = [t for t in mism if t[0] not in failed]
    # the model satisfies C12 for every input (theorems) relative to the reference lexer, which is the lexical specification (C14): an
    # input on which SplitRawStatements answers differently is an input on which it fails where there is no lexical error, succeeds where
    # there is one, or cuts elsewhere than at the top-level ';' tokens
    for (h, x, y) in rest[:3]:
        res.violation("SplitRawStatements differs from the splitter proved correct against the lexical specification",
                      {"kind": "split-c12-model", "input_hex": h.split()[-1] if " " in h else h, "go": x[:400], "model": y[:400]})
    res.obligation("correspondence split model: SplitRawStatements == extracted Coq model on %d strings" % (total + len(ins)),
                   not rest, "\n".join("%s\n  go:    %s\n  model: %s" % t for t in rest[:5]))
    multi = len(set(l for l in g if l.count(",") >= 4))
    res.add_cases(total + len(ins), multi + multi_exh, [g[0], g[len(g) // 2][:300], g[-1][:300]])
    res.cov["rule"] = ("every string of <= %d symbols over the 24-symbol lexical alphabet, upstream corpus, random bytes, token soups, "
                       "';'-joined corpus statements with comments/whitespace/literals containing ';'; on each: C12 evaluated on the real "
                       "SplitRawStatements + Lexer (oracle) and pieces compared with the extracted Coq model; non-trivial = at least two "
                       "pieces (counted by the harness on the exhaustive strings and on the sampled part)" % n5)
    res.assumptions += ["the lexer model of C13 (same correspondence) underlies the splitter model"]
