"""Per-property checks.  Each check: (1) per-run Coq obligations, (2) correspondence model vs. code on the
property's own domain and observables, (3) search for a concrete failing input when (1) or (2) breaks."""
import json, os, random, sys, time
import vlib, gens
import props_split, props_quote, props_tree, props_parse
from vlib import Result, hexs, unhex, log


def std_coq(res, pid, st, extra_files=()):
    """the Coq side shared by all checks: development builds, property file re-checked, no forbidden keywords"""
    cp = vlib.coq_property(pid, extra_files)
    res.theorems = cp["theorems"]
    res.axioms = cp["axioms"]
    if cp["ok"]:
        for t in cp["theorems"]:
            res.obligation("theorem " + t, True)
    else:
        res.obligation("Properties/%s.v" % pid, False, cp["log"])
    bad = vlib.forbidden_scan()
    res.obligation("no Admitted/admit/Axiom/Parameter/Conjecture/guard switches in coq/", not bad, "\n".join(bad))
    if not st["go"]:
        res.obligation("go build of harness against /repo", False, st["log"])
    if not st["driver"]:
        res.obligation("extraction + OCaml driver build", False, st["log"])
    if cp["ok"] and res.tier == "thorough":
        coqchk(res, pid)
    return cp["ok"]


def coqchk(res, pid):
    """thorough tier: the compiled property file and everything it depends on, re-checked by the independent checker coqchk;
    its context summary (axioms, type-in-type, unsafe fixpoints, assumed positivity) must be empty"""
    import subprocess
    mods = ["Verif.Properties." + pid] + (["Verif.Properties.C03_lexer"] if pid == "C03" else [])
    t0 = time.time()
    try:
        p = subprocess.run(["coqchk", "-silent", "-o", "-Q", "theories", "Verif"] + mods, cwd=vlib.COQ, stdout=subprocess.PIPE,
                           stderr=subprocess.STDOUT, timeout=3000)
        out = p.stdout.decode(errors="replace")
        rc = p.returncode
    except subprocess.TimeoutExpired:
        out, rc = "coqchk timed out after 3000 s", 124
    summ = out[out.find("CONTEXT SUMMARY"):] if "CONTEXT SUMMARY" in out else out[-600:]
    import re
    clean = all(re.search(k + r":\s*<none>", summ) for k in ("Axioms", "type-in-type", "unsafe \(co\)fixpoints", "positivity is assumed"))
    res.obligation("coqchk -o %s: re-checked by the independent checker, no axioms / type-in-type / unsafe fixpoints / assumed positivity"
                   % " ".join(mods), rc == 0 and clean, summ[-800:])
    res.extra["coqchk"] = {"modules": mods, "exit": rc, "seconds": round(time.time() - t0, 1), "summary": " ".join(summ.split())[:600]}


# ---------------------------------------------------------------- C20
def c20(res, st):
    rnd = random.Random(res.seed)
    ok = std_coq(res, "C20", st)
    if not (st["go"] and st["driver"]):
        return
    # (a) exhaustive texts over {a, \n, \r, é} with all position pairs in [-1, len+1]^2
    n = 5 if res.tier == "quick" else 7
    go = vlib.run_lines(vlib.HARNESS, ["file-exh", str(n)])
    md = vlib.run_lines(vlib.DRIVER, ["file-exh", str(n)])
    # (a') histories: the same queries on ONE File per text, ascending and then descending (Position must be a function
    # of (text, pos, end): a File is reused for every error of a parse)
    hist = vlib.run_lines(vlib.HARNESS, ["file-exh-h", str(n - 1)])
    md1 = vlib.run_lines(vlib.DRIVER, ["file-exh", str(n - 1)])
    asc = [l for l in hist if not l.startswith("D ")]
    desc = [l[2:] for l in hist if l.startswith("D ")]
    # per text the ascending block is followed by the descending block; both must equal the model's block
    go += asc + desc
    md += md1 + md1
    res.extra["history_queries"] = len(asc) + len(desc)
    # (b) random larger texts, several queries per text in random order on one File
    cases = []
    for _ in range(400 if res.tier == "quick" else 5000):
        t = gens.random_text_lines(rnd)
        for _ in range(5):
            a = rnd.randrange(len(t) + 1)
            b = rnd.randrange(a, len(t) + 1)
            cases.append("%s %d %d" % (hexs(t), a, b))
    inp = "\n".join(cases) + "\n"
    go += vlib.run_lines(vlib.HARNESS, ["file-cases-h"], inp)
    md += vlib.run_lines(vlib.DRIVER, ["file-cases"], inp)
    in_dom = out_dom = out_dom_diff = 0
    distinct = set()
    for g, m in zip(go, md):
        f = g.split()
        text = unhex(f[0]); p, e = int(f[1]), int(f[2])
        dom = 0 <= p <= e <= len(text)
        if dom:
            in_dom += 1
            if b"\n" in text:
                distinct.add((f[0], p, e))
            if g != m:
                res.violation("File.Position differs from the proved specification (line/column/excerpt/no-panic)",
                              {"kind": "file-position", "text_hex": f[0], "pos": p, "end": e, "observed": g, "expected": m})
        else:
            out_dom += 1
            out_dom_diff += g != m
    if len(go) != len(md):
        res.obligation("correspondence file model: same number of cases", False, "%d vs %d" % (len(go), len(md)))
    res.add_cases(in_dom, len(distinct), [go[7], go[len(go) // 2], go[-1]])
    res.extra["file_cases_outside_domain"] = {"cases": out_dom, "model_differs": out_dom_diff,
                                              "note": "pos/end outside 0<=pos<=end<=len: informational only, the property does not speak about them"}
    # (c) real error messages: prefix file:line+1:col+1 of the error's Pos
    inputs = []
    corp = gens.corpus()
    for _ in range(300 if res.tier == "quick" else 5000):
        k, nm, s = rnd.choice(corp)
        for _ in range(rnd.randrange(1, 3)):
            s = gens.mutate(rnd, s)
        inputs.append(s)
    for _ in range(100 if res.tier == "quick" else 2000):
        inputs.append(gens.token_soup(rnd, rnd.randrange(1, 12)).replace(b" ", rnd.choice([b" ", b"\n", b"\r\n"])))
    inputs += gens.regression("C20")
    # multi-byte characters on the line of a PARSER error (columns count bytes), and sentences with such characters damaged at every place
    inputs += gens.MULTIBYTE_BEFORE_ERROR + gens.MULTILINE_ERRORS
    for base in (b"SELECT '\xc3\xa9' AS `\xe6\x97\xa5` , f ( \"\xf0\x9f\x98\x80\" ) /* \xc3\xa9 */ FROM t WHERE a = '\xe2\x82\xac' ORDER BY 1",):
        toks = base.split(b" ")
        for i in range(len(toks)):
            inputs.append(b" ".join(toks[:i] + toks[i + 1:]))
            inputs.append(b" ".join(toks[:i] + [b")"] + toks[i:]))
    lines = vlib.run_lines(vlib.HARNESS, ["errs-of"], "\n".join(hexs(s) for s in inputs) + "\n")
    lines = sorted(set(lines))
    got = [l.split(" | ")[1] for l in lines]
    want = vlib.run_lines(vlib.DRIVER, ["errstr-cases"], "\n".join(l.split(" | ")[0] for l in lines) + "\n")
    nerr = 0
    for l, g, w in zip(lines, got, want):
        nerr += 1
        if g != w:
            f = l.split()
            res.violation("Error.Error() prefix is not file:line+1:col+1 of the error's Pos",
                          {"kind": "error-string", "text_hex": f[1], "pos": int(f[2]), "end": int(f[3]),
                           "observed": g, "expected": w})
    res.add_cases(nerr, len(set(l.split()[1] + l.split()[2] for l in lines)), [lines[0][:200]] if lines else [])
    res.cov["rule"] = ("(a) every text of <= %d symbols over {a,\\n,\\r,e-acute} x every pair (pos,end) in [-1,len+1]^2, "
                       "(b) random multi-line texts with CR LF / multi-byte / invalid bytes x random in-range pairs, "
                       "(c) every *Error returned by all entry points on mutated corpus statements and token soups; "
                       "Go output compared with the extracted Coq model (which is proved equal to the specification); "
                       "non-trivial = text contains a newline (a,b) / distinct (input,pos) (c)" % n)
    res.cov["exhaustive"] = False
    res.assumptions += ["fmt %3d/%d/%s and strings.Repeat are modelled by dec3/dec_of_nat/repeat (compared on every case)",
                        "error message texts are passed through unchanged (only the prefix is specified)"]


# ---------------------------------------------------------------- lexer inputs shared by C13/C14/C03/C12
ESC_ALPHABET = [b'"', b"'", b"`", b"\\", b"u", b"U", b"x", b"0", b"3", b"7", b"8", b"a", b"n", b"D", b"F", b"\n"]
LIT_PREFIXES = [b'"', b"'", b"`", b'b"', b"r'", b'"""', b"'''", b'rb"', b"B'''", b'R"""']


def lexer_inputs(rnd, tier, pid):
    """non-exhaustive part: regression corpus first, upstream corpus files, random 256-byte strings, token soups"""
    ins = list(gens.regression("lexer")) + list(gens.regression(pid))
    ins += [s for (_, _, s) in gens.corpus()]
    nr = 3000 if tier == "quick" else 60000
    for _ in range(nr):
        ins.append(gens.random_bytes(rnd, rnd.randrange(0, 24)))
    for _ in range(nr):
        ins.append(gens.random_bytes(rnd, rnd.randrange(0, 40), gens.LEX_ALPHABET + ESC_ALPHABET + [b"\xc2\xa0", b"\xe3\x80\x80", b"\xff", b"\xe2\x80\xa8", b"\t", b"\r"]))
    for _ in range(nr // 3):
        ins.append(gens.token_soup(rnd, rnd.randrange(1, 15)))
    for _ in range(nr // 3):
        k, nm, s = rnd.choice(gens.corpus())
        ins.append(gens.mutate(rnd, s))
    return ins


def escape_matrix():
    """the finite tables behind C14: every byte after a backslash, every \\xHH (both cases), every \\ooo 000..777, \\u/\\U at
    the code-point boundaries (incl. surrogates, U+FFFD, beyond U+10FFFF, short digit runs), in each literal form; number forms;
    every pair of ASCII punctuation characters; every keyword in three spellings, alone and after a dot"""
    out = []
    forms = [(b'"', b'"'), (b"'", b"'"), (b"`", b"`"), (b'b"', b'"'), (b"B'", b"'"), (b'r"', b'"'), (b"rb'", b"'"), (b'"""', b'"""'),
             (b"b'''", b"'''"), (b'R"""', b'"""'), (b"bR'", b"'")]
    cps = [0, 1, 0x7f, 0x80, 0x7ff, 0x800, 0xd7ff, 0xd800, 0xdbff, 0xdc00, 0xdfff, 0xe000, 0xfffd, 0xfffe, 0xffff, 0x10000, 0x10ffff,
           0x110000, 0x7fffffff, 0xffffffff]
    for (o, c) in forms:
        for b in range(256):
            out.append(o + b"\\" + bytes([b]) + c)
            out.append(o + b"\\" + bytes([b]) + b"00" + c)
        for b in range(256):
            out.append(o + b"\\x%02x" % b + c)
            out.append(o + b"\\X%02X" % b + c)
        for n in range(512):
            out.append(o + b"\\%03o" % n + c)
        for cp in cps:
            if cp <= 0xffff:
                out.append(o + b"\\u%04x" % cp + c)
                out.append(o + b"\\u%04X" % cp + b"0" + c)
            out.append(o + b"\\U%08x" % cp + c)
            out.append(o + b"\\U%08X" % cp + c)
        for short in (b"\\u", b"\\u1", b"\\u12", b"\\u123", b"\\U", b"\\U1234567", b"\\x", b"\\x1", b"\\0", b"\\01", b"\\08", b"\\"):
            out.append(o + short + c)
            out.append(o + short)
    nums = [b"0", b"00", b"1", b"1.", b".1", b"1.1", b"1e1", b"1E1", b"1e+1", b"1e-1", b"1e", b"1e+", b"1.e1", b".1e1", b"1.1e1", b"1e1.1",
            b"1e1e1", b"1..1", b"1.1.1", b"0x", b"0x1", b"0X1f", b"0xg", b"0x1g", b"0x1.1", b"0x1e1", b"1a", b"1_", b"1.a", b"1e1a", b".1a",
            b"a.1", b"a.1e1", b"a .1", b"). 1", b"].1", b"@p.1", b"1 .1", b"a.1.1", b"a..1", b"1.1a", b"0b1", b"01", b"1x1"]
    for n in nums:
        for suf in (b"", b" ", b"+", b".", b"e", b"x", b"_", b"'", b"\n"):
            out.append(n + suf)
    punct = [bytes([c]) for c in range(33, 127) if not (48 <= c <= 57 or 65 <= c <= 90 or 97 <= c <= 122)]
    for a in punct:
        out.append(a)
        for b in punct:
            out.append(a + b)
            out.append(a + b + b"a")
    kws = props_quote.keywords_from_gen()
    for k in kws:
        low = k.lower(); mixed = k.capitalize()
        for w in (k, low, mixed):
            out += [w, b"a." + w, w + b"1", w + b"_", b"_" + w, w + b".x", b"@" + w, b"`" + w + b"`"]
    return out


CONTEXT_PREFIXES = [b"/*", b"a.", b"1e"]


def lexer_correspondence(res, mode, proj, oracle, label, on_oracle_fail, exh_len=None):
    """exhaustive + sampled comparison Go lexer vs extracted model under a projection; oracle failures are
    concrete violations; remaining disagreements break the correspondence obligation."""
    rnd = random.Random(res.seed)
    n5 = exh_len or (5 if res.tier == "quick" else 6)
    total = 0
    mism = []
    r = vlib.lex_exhaustive(gens.LEX_ALPHABET, n5, mode, b"", proj, oracle)
    total += r["n"]; mism += r["mismatches"]; fails = list(r["fails"]); multi_exh = r["three_records"]
    for pre in LIT_PREFIXES:
        r = vlib.lex_exhaustive(ESC_ALPHABET, 4 if res.tier == "quick" else 5, mode, pre, proj, oracle)
        total += r["n"]; mism += r["mismatches"]; fails += r["fails"]; multi_exh += r["three_records"]
    # the same alphabet inside a context: after a comment opener (runs of '*' of either parity before the closer), after a path dot
    # (field names that look like literal prefixes), after a number (exponent forms)
    for pre in CONTEXT_PREFIXES:
        r = vlib.lex_exhaustive(gens.LEX_ALPHABET, 4 if res.tier == "quick" else 5, mode, pre, proj, oracle)
        total += r["n"]; mism += r["mismatches"]; fails += r["fails"]; multi_exh += r["three_records"]
    ins = lexer_inputs(rnd, res.tier, res.pid)
    g, m = vlib.lex_cases(ins, mode, proj)
    for x, y in zip(g, m):
        if x != y:
            mism.append((x.split(" => ")[0], x, y))
    if oracle != "-":
        fails += vlib.lex_prop(oracle, ins)
    nontrivial = len(set(l for l in g if l.count(",") > 12))
    for (h, why) in fails:
        on_oracle_fail(h, why)
    failed_inputs = set(h for (h, _) in fails)
    rest = [(h, x, y) for (h, x, y) in mism if h not in failed_inputs]
    res.obligation("correspondence %s: Go lexer == extracted Coq model on %d strings" % (label, total + len(ins)),
                   not rest, "\n".join("%s\n  go:    %s\n  model: %s" % t for t in rest[:5]))
    res.add_cases(total + len(ins), nontrivial + multi_exh, [g[0], g[len(g) // 2][:300], g[-1][:300]])
    res.extra.setdefault("lexer_correspondence", []).append(
        {"label": label, "mode": mode, "projection": proj, "exhaustive_alphabet24_maxlen": n5,
         "exhaustive_strings": total, "escape_family_prefixes": [p.decode("latin-1") for p in LIT_PREFIXES],
         "sampled_inputs": len(ins), "disagreements": len(mism), "oracle_failures": len(fails)})
    return mism, fails


# ---------------------------------------------------------------- C13
def c13(res, st):
    std_coq(res, "C13", st)
    if not (st["go"] and st["driver"]):
        return

    def fail(h, why):
        res.violation("lexer output does not tile the input: " + why, {"kind": "lex-c13", "input_hex": h, "why": why})
    lexer_correspondence(res, "p", "c13", "c13", "C13 (Raw/Pos/End/Space/Comments of accepted inputs)", fail)
    res.cov["rule"] = ("every string of <= N symbols over the 24-symbol alphabet of the property (N=5 quick, 6 thorough), every "
                       "literal prefix x escape alphabet word of <= 4/5 symbols, upstream corpus, random 256-byte strings, token soups, "
                       "mutated corpus; on each: the C13 statement evaluated on the real lexer (oracle) and all tiling observables "
                       "compared with the extracted Coq model for which C13_lossless is proved; non-trivial = at least two tokens "
                       "(counted by the harness on the exhaustive strings and on the sampled part)")
    res.assumptions += ["unicode.IsSpace / utf8.DecodeRuneInString are modelled (Base/Utf8.v) and compared with Go on every case",
                        "token.KeywordsMap is read through the translator (Gen/Keywords.v)"]


# ---------------------------------------------------------------- C14
def c14(res, st):
    std_coq(res, "C14", st)
    if not (st["go"] and st["driver"]):
        return
    rnd = random.Random(res.seed)
    n5 = 5 if res.tier == "quick" else 6
    total = 0
    mism = []
    r = vlib.lex_exhaustive(gens.LEX_ALPHABET, n5, "p", b"", "c14r", "-")
    total += r["n"]; mism += r["mismatches"]; multi_exh = r["three_records"]
    for pre in LIT_PREFIXES:
        r = vlib.lex_exhaustive(ESC_ALPHABET, 4 if res.tier == "quick" else 5, "p", pre, "c14r", "-")
        total += r["n"]; mism += r["mismatches"]; multi_exh += r["three_records"]
    for pre in CONTEXT_PREFIXES:
        r = vlib.lex_exhaustive(gens.LEX_ALPHABET, 4 if res.tier == "quick" else 5, "p", pre, "c14r", "-")
        total += r["n"]; mism += r["mismatches"]; multi_exh += r["three_records"]
    ins = escape_matrix() + lexer_inputs(rnd, res.tier, "C14")
    g, m = vlib.lex_cases(ins, "p", "c14r")
    for x, y in zip(g, m):
        if x != y:
            mism.append((x.split(" => ")[0], x, y))
    # the reference lexer IS the specification: an input on which the Go lexer differs from it is a failing input of C14
    seen = set()
    for (h, x, y) in mism:
        if h in seen:
            continue
        seen.add(h)
        res.violation("token stream differs from the reference lexer (kinds / token texts / decoded values / acceptance)",
                      {"kind": "lex-c14", "input_hex": h, "observed": x.split(" => ", 1)[-1][:400], "reference": y.split(" => ", 1)[-1][:400]})
    # and the model the theorem is about must be the code (all token fields, both modes are compared in C13/C03; here the C14 projection)
    r2 = vlib.lex_exhaustive(gens.LEX_ALPHABET, 4, "p", b"", "c14", "-")
    g2, m2 = vlib.lex_cases(ins, "p", "c14")
    mm = r2["mismatches"] + [(x.split(" => ")[0], x, y) for x, y in zip(g2, m2) if x != y]
    mm = [t for t in mm if t[0] not in seen]
    res.obligation("correspondence lexer model: Go lexer == extracted model of lexer.go (kinds, boundaries, values) on %d strings" % (r2["n"] + len(ins)),
                   not mm, "\n".join("%s\n  go:    %s\n  model: %s" % t for t in mm[:5]))
    rejected = sum(1 for x in g if x.endswith("ERR"))
    multi = len(set(x for x in g if x.count(",") > 6))
    res.add_cases(total + len(ins), multi + multi_exh, [g[0][:200], g[len(g) // 2][:200], g[-1][:200]])
    res.extra["c14"] = {"exhaustive_strings": total, "matrix_and_sampled": len(ins), "rejected_in_matrix_and_sampled": rejected,
                        "differences_from_reference": len(seen)}
    res.cov["rule"] = ("Go lexer vs the extracted REFERENCE lexer (kind, token text, decoded value, base, acceptance): every string of <= N symbols "
                       "over the 24-symbol lexical alphabet (N=5 quick, 6 thorough), every literal prefix x escape-alphabet word of <= 4/5 symbols, the "
                       "escape/number/operator/keyword matrix (every byte after a backslash, every \\xHH and \\ooo, \\u/\\U at all code-point "
                       "boundaries, in 11 literal forms; number forms x suffixes; all pairs of punctuation; every keyword in 3 spellings, alone and "
                       "after a dot), corpus, random bytes, token soups, mutants; non-trivial = accepted with at least two tokens (counted by the harness)")
    res.assumptions += ["the reference lexer (Lex/Reference.v) is the formal reading of the GoogleSQL lexical-structure page; places where the page is "
                        "silent follow the pinned behaviour and are marked DOC-SILENT there",
                        "unicode.IsSpace / utf8 decoding modelled (Base/Utf8.v) and swept against Go in C15"]


CHECKS = {"C07": lambda res, st: props_parse.c07(res, st, std_coq), "C05": lambda res, st: props_parse.sampled(res, st, std_coq), "C06": lambda res, st: props_parse.sampled(res, st, std_coq),
          "C08": lambda res, st: props_parse.sampled(res, st, std_coq), "C10": lambda res, st: props_parse.sampled(res, st, std_coq),
          "C11": lambda res, st: props_parse.sampled(res, st, std_coq), "C16": lambda res, st: props_parse.sampled(res, st, std_coq),
          "C09": lambda res, st: props_parse.c09(res, st, std_coq), "C03": lambda res, st: props_parse.c03(res, st, std_coq, lexer_correspondence), "C18": lambda res, st: props_parse.c18(res, st, std_coq), "C04": lambda res, st: props_parse.c04(res, st, std_coq), "C01": lambda res, st: props_parse.c01(res, st, std_coq),
          "C02": lambda res, st: props_parse.c01(res, st, std_coq), "C19": lambda res, st: props_tree.c19(res, st, std_coq), "C17": lambda res, st: props_tree.c17(res, st, std_coq), "C20": c20, "C13": c13, "C14": c14, "C15": lambda res, st: props_quote.c15(res, st, std_coq), "C12": lambda res, st: props_split.c12(res, st, std_coq, lexer_inputs)}


def run(pid, tier, seed):
    if pid not in CHECKS:
        print("unknown property", pid)
        return 2
    res = Result(pid, tier, seed)
    st = vlib.prepare()
    res.extra["prepare"] = {k: st[k] for k in ("go", "translator", "coq", "driver", "prepare_s") if k in st}
    try:
        CHECKS[pid](res, st)
    except Exception as ex:  # a crash of the machinery must not look like a pass
        import traceback
        res.obligation("check machinery ran to completion", False, traceback.format_exc())
    return res.finish()


def replay(pid, path):
    case = json.load(open(path))
    st = vlib.prepare()
    print(json.dumps(case, indent=1))
    k = case.get("kind")
    if k == "file-position":
        got = vlib.run_lines(vlib.HARNESS, ["file-cases"], "%s %d %d\n" % (case["text_hex"], case["pos"], case["end"]))
        want = vlib.run_lines(vlib.DRIVER, ["file-cases"], "%s %d %d\n" % (case["text_hex"], case["pos"], case["end"]))
        print("implementation:", got[0]); print("specification: ", want[0])
        return 0 if got == want else 1
    print("no replay routine for kind", k)
    return 2
