"""Per-property checks.  Each check: (1) per-run Coq obligations, (2) correspondence model vs. code on the
property's own domain and observables, (3) search for a concrete failing input when (1) or (2) breaks."""
import json, os, random, sys, time
import vlib, gens
from vlib import Result, hexs, unhex, log


def std_coq(res, pid, st, extra_files=()):
    """the Coq side shared by all checks: development builds, property file re-checked, no forbidden keywords"""
    cp = vlib.coq_property(pid, extra_files)
    res.theorems = cp["theorems"]
    res.axioms = cp["axioms"]
    if cp["ok"]:
        for t in cp["theorems"]:
            res.obligation("theorem " + t, True)
    else:
        res.obligation("Properties/%s.v" % pid, False, cp["log"])
    bad = vlib.forbidden_scan()
    res.obligation("no Admitted/admit/Axiom/Parameter/Conjecture/guard switches in coq/", not bad, "\n".join(bad))
    if not st["go"]:
        res.obligation("go build of harness against /repo", False, st["log"])
    if not st["driver"]:
        res.obligation("extraction + OCaml driver build", False, st["log"])
    return cp["ok"]


# ---------------------------------------------------------------- C20
def c20(res, st):
    rnd = random.Random(res.seed)
    ok = std_coq(res, "C20", st)
    if not (st["go"] and st["driver"]):
        return
    # (a) exhaustive texts over {a, \n, \r, é} with all position pairs in [-1, len+1]^2
    n = 5 if res.tier == "quick" else 7
    go = vlib.run_lines(vlib.HARNESS, ["file-exh", str(n)])
    md = vlib.run_lines(vlib.DRIVER, ["file-exh", str(n)])
    # (b) random larger texts
    cases = []
    for _ in range(1500 if res.tier == "quick" else 20000):
        t = gens.random_text_lines(rnd)
        a = rnd.randrange(len(t) + 1)
        b = rnd.randrange(a, len(t) + 1)
        cases.append("%s %d %d" % (hexs(t), a, b))
    inp = "\n".join(cases) + "\n"
    go += vlib.run_lines(vlib.HARNESS, ["file-cases"], inp)
    md += vlib.run_lines(vlib.DRIVER, ["file-cases"], inp)
    in_dom = out_dom = out_dom_diff = 0
    distinct = set()
    for g, m in zip(go, md):
        f = g.split()
        text = unhex(f[0]); p, e = int(f[1]), int(f[2])
        dom = 0 <= p <= e <= len(text)
        if dom:
            in_dom += 1
            if b"\n" in text:
                distinct.add((f[0], p, e))
            if g != m:
                res.violation("File.Position differs from the proved specification (line/column/excerpt/no-panic)",
                              {"kind": "file-position", "text_hex": f[0], "pos": p, "end": e, "observed": g, "expected": m})
        else:
            out_dom += 1
            out_dom_diff += g != m
    if len(go) != len(md):
        res.obligation("correspondence file model: same number of cases", False, "%d vs %d" % (len(go), len(md)))
    res.add_cases(in_dom, len(distinct), [go[7], go[len(go) // 2], go[-1]])
    res.extra["file_cases_outside_domain"] = {"cases": out_dom, "model_differs": out_dom_diff,
                                              "note": "pos/end outside 0<=pos<=end<=len: informational only, the property does not speak about them"}
    # (c) real error messages: prefix file:line+1:col+1 of the error's Pos
    inputs = []
    corp = gens.corpus()
    for _ in range(300 if res.tier == "quick" else 5000):
        k, nm, s = rnd.choice(corp)
        for _ in range(rnd.randrange(1, 3)):
            s = gens.mutate(rnd, s)
        inputs.append(s)
    for _ in range(100 if res.tier == "quick" else 2000):
        inputs.append(gens.token_soup(rnd, rnd.randrange(1, 12)).replace(b" ", rnd.choice([b" ", b"\n", b"\r\n"])))
    inputs += gens.regression("C20")
    lines = vlib.run_lines(vlib.HARNESS, ["errs-of"], "\n".join(hexs(s) for s in inputs) + "\n")
    lines = sorted(set(lines))
    got = [l.split(" | ")[1] for l in lines]
    want = vlib.run_lines(vlib.DRIVER, ["errstr-cases"], "\n".join(l.split(" | ")[0] for l in lines) + "\n")
    nerr = 0
    for l, g, w in zip(lines, got, want):
        nerr += 1
        if g != w:
            f = l.split()
            res.violation("Error.Error() prefix is not file:line+1:col+1 of the error's Pos",
                          {"kind": "error-string", "text_hex": f[1], "pos": int(f[2]), "end": int(f[3]),
                           "observed": g, "expected": w})
    res.add_cases(nerr, len(set(l.split()[1] + l.split()[2] for l in lines)), [lines[0][:200]] if lines else [])
    res.cov["rule"] = ("(a) every text of <= %d symbols over {a,\\n,\\r,e-acute} x every pair (pos,end) in [-1,len+1]^2, "
                       "(b) random multi-line texts with CR LF / multi-byte / invalid bytes x random in-range pairs, "
                       "(c) every *Error returned by all entry points on mutated corpus statements and token soups; "
                       "Go output compared with the extracted Coq model (which is proved equal to the specification); "
                       "non-trivial = text contains a newline (a,b) / distinct (input,pos) (c)" % n)
    res.cov["exhaustive"] = False
    res.assumptions += ["fmt %3d/%d/%s and strings.Repeat are modelled by dec3/dec_of_nat/repeat (compared on every case)",
                        "error message texts are passed through unchanged (only the prefix is specified)"]


CHECKS = {"C20": c20}


def run(pid, tier, seed):
    if pid not in CHECKS:
        print("unknown property", pid)
        return 2
    res = Result(pid, tier, seed)
    st = vlib.prepare()
    res.extra["prepare"] = {k: st[k] for k in ("go", "translator", "coq", "driver", "prepare_s") if k in st}
    try:
        CHECKS[pid](res, st)
    except Exception as ex:  # a crash of the machinery must not look like a pass
        import traceback
        res.obligation("check machinery ran to completion", False, traceback.format_exc())
    return res.finish()


def replay(pid, path):
    case = json.load(open(path))
    st = vlib.prepare()
    print(json.dumps(case, indent=1))
    k = case.get("kind")
    if k == "file-position":
        got = vlib.run_lines(vlib.HARNESS, ["file-cases"], "%s %d %d\n" % (case["text_hex"], case["pos"], case["end"]))
        want = vlib.run_lines(vlib.DRIVER, ["file-cases"], "%s %d %d\n" % (case["text_hex"], case["pos"], case["end"]))
        print("implementation:", got[0]); print("specification: ", want[0])
        return 0 if got == want else 1
    print("no replay routine for kind", k)
    return 2
