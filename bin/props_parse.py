"""Parser-level properties whose printer/position side is proved on regenerated programs and whose parser side is
covered by (i) fragment theorems where they exist and (ii) the property evaluated on the implementation (search/sampling)."""
import os, random
import vlib, gens
from vlib import hexs, unhex
from props_tree import gen_check, tree_correspondence, run_oracle


def _needs_driver(default=None):
    """a helper that runs the extracted model: when the driver could not be built from the current tree it is skipped (the broken build is
    already recorded as broken obligations by std_coq); the implementation-level oracle still searches for a concrete failing input"""
    def deco(fn):
        def w(res, *a, **k):
            try:
                return fn(res, *a, **k)
            except vlib.DriverMissing:
                res.extra.setdefault("skipped_without_driver", []).append(fn.__name__)
                return default() if callable(default) else default
        w.__name__ = fn.__name__
        w.__doc__ = fn.__doc__
        return w
    return deco


def report_oracle(res, pid, cases, what):
    fails, stat = run_oracle(pid, cases)
    n = 0
    for f in fails:
        if res.violation(what + ": " + f["key"], dict(f, kind="oracle-" + pid), key_fields=f):
            n += 1
    res.extra["oracle_stat"] = stat
    res.extra["oracle_failures"] = len(fails)
    res.extra["oracle_failures_not_known"] = n
    acc = 0
    for part in stat.split():
        if part.startswith("accepted="):
            acc = int(part.split("=")[1])
        if part.startswith("types="):
            res.extra["node_types_in_run"] = len([t for t in part[6:].split(",") if t])
    res.extra["accepted_inputs"] = acc
    return fails


@_needs_driver()
def sql_correspondence(res, cases, label="printer"):
    tbl = os.path.join(vlib.BUILD, "isprint-%s-%d.tbl" % (res.pid, os.getpid()))   # per run: checks may run side by side
    import atexit
    atexit.register(lambda p=tbl: os.path.exists(p) and os.remove(p))
    with open(tbl, "w") as f:
        f.write("\n".join(vlib._run_out([vlib.HARNESS, "isprint-table"])) + "\n")
    r = tree_correspondence(res, cases, [("sql", ["tree-sql"], ["tree-sql", tbl])])
    g, m, mism = r["sql"]
    nodes = sum(len(l.split(" => ")[1].split()) for l in g if " => " in l and not l.endswith("PANIC"))
    panics = sum(l.count(":X") for l in g)
    res.obligation("correspondence: SQL() of every node == extracted printer semantics on Gen/PrintProg.v (%d nodes, %d panicking)" % (nodes, panics),
                   not mism, "\n".join("%s\n go:    %s\n model: %s" % (a, b[-300:], c[-300:]) for a, b, c in mism[:3]))
    res.extra["sql_nodes_compared"] = nodes
    return g, mism


def c04(res, st, std_coq):
    std_coq(res, "C04", st, ("theories/GenChecks.v",))
    if not st["go"]:
        return
    rnd = random.Random(res.seed)
    gen_check(res, ("schema_ok", "pos_tables_ok", "walk_table_ok", "printer_ok"))
    q = res.tier == "quick"
    cases = gens.parser_cases(rnd, 4000 if q else 80000, 1500 if q else 30000, 300 if q else 6000)
    cases += gens.sentence_cases(rnd, 3000 if q else 60000)
    cases += gens.probe_cases()
    cases += [("ParseStatement", s) for s in gens.regression("C04")] + [("ParseExpr", s) for s in gens.regression("C04")]
    sc = sql_correspondence(res, cases)
    g = sc[0] if sc else []
    try:
        r = tree_correspondence(res, cases, [("wt", ["parse-dump"], ["tree-wt"])])
        ill = [l for l in r["wt"][1] if "ILL-TYPED" in l]
        res.obligation("every returned tree is well typed against the schema regenerated from ast.go (%d trees)" % len(r["wt"][1]), not ill, "\n".join(ill[:3]))
    except vlib.DriverMissing:
        res.extra.setdefault("skipped_without_driver", []).append("tree-wt")
    fails = report_oracle(res, "C04", cases, "SQL()/Pos()/End()/Walk panics on a returned tree")
    # a node on which the real SQL() panics is a concrete violation whatever the oracle says
    for (e, s), line in zip(cases, g):
        if ":X" in line and not any(f["input_hex"] == hexs(s) for f in fails):
            res.violation("SQL() panics on a node of the returned tree", {"kind": "c04-sql-panic", "entry": e, "input_hex": hexs(s), "nodes": line[-300:]})
    bad_trees = sum(1 for l in g if "Bad" in l)
    res.add_cases(len(cases), len(set(cases)), [g[0][:300], g[len(g) // 2][:300]] if g else [])
    res.extra["trees_with_bad_nodes"] = bad_trees
    # C04_family_*_trees_are_well_typed are about Parse/StmtModel.v: tie it to the four entry points
    stmt_family_correspondence(res, rnd, q)
    res.cov["rule"] = ("corpus files under every matching entry point, type expressions, seeded byte/token mutations (error recovery, Bad nodes), token soups, "
                       "';'-joined lists; for every node of every returned tree SQL() (panics included) is compared with the extracted printer "
                       "semantics run on the programs regenerated from sql.go, every tree is type-checked against the regenerated schema, and the "
                       "C04 oracle calls SQL/Pos/End on every node and Walk/Inspect/Preorder on every root; distinct = distinct (entry, input)")
    res.assumptions += ["which trees the parser can return is not modelled outside the expression fragment, the type grammar and the statement family: the parser side of C04 is the "
                        "correspondence/oracle run on dumped trees (sampling), the printer/position/traversal side is proved",
                        "unicode.IsPrint is a parameter of the printer semantics (table dumped from Go for the correspondence)"]


def c01(res, st, std_coq):
    std_coq(res, "C01", st, ("theories/GenChecks.v",))
    if not st["go"]:
        return
    rnd = random.Random(res.seed)
    info = gen_check(res, ("printer_ok", "separators_ok"))
    unread = info.get("unread_fields", "")
    fields = [x for x in unread[unread.find("[") + 1:unread.rfind("]")].split(",") if x]
    for fld in fields:
        k = res.match_known({"kind": "unread-field", "field": fld})
        if k is not None:
            if k["id"] not in [h["id"] for h in res.known_hits]:
                res.known_hits.append({"id": k["id"], "what": k.get("what", "")})
        else:
            res.obligation("SQL() of %s reads the field %s (every non-position field must be printed)" % tuple(fld.split(".")), False, unread)
    q = res.tier == "quick"
    cases = gens.parser_cases(rnd, 3000 if q else 60000, 300 if q else 6000, 400 if q else 8000)
    cases += gens.sentence_cases(rnd, 3000 if q else 60000)
    cases += gens.probe_cases()
    cases += [("ParseStatement", s) for s in gens.regression(res.pid)] + [("ParseExpr", s) for s in gens.regression(res.pid)]
    sql_correspondence(res, cases)
    if res.pid == "C01":
        fragment_roundtrip_check(res, rnd, q)
        type_correspondence(res, rnd, q)
        type_roundtrip_check(res, rnd, q)
    else:
        # C02_type_tokens_round_trip is about Parse/TypeModel.v + the hypothesis lex(SQL(tree)) = spelling: tie both to the code
        type_correspondence(res, rnd, q)
        type_roundtrip_check(res, rnd, q)
    what = {"C01": "parse -> SQL() -> parse is not stable", "C02": "SQL() drops, adds or moves a significant token"}[res.pid]
    report_oracle(res, res.pid, cases, what)
    res.add_cases(len(cases), len(set(cases)), [gens.case_lines(cases[:1]).strip()[:200], gens.case_lines(cases[-1:]).strip()[:200]])
    res.cov["rule"] = ("corpus files under every matching entry point, type expressions, seeded mutations (those still accepted count), ';'-joined lists, "
                       "generated expression/query sentences (operators, parentheses, signs, literals in every quote form, identifiers that need quoting); "
                       "on each accepted input the property statement is evaluated on the real code; the printer model is compared node by node; "
                       "distinct = distinct (entry, input)")
    res.assumptions += ["parser productions outside the expression fragment are sampled, not proved",
                        "derived fields (IntLiteral.Base, SetNoSkipRange.NoSkipRange, BadQueryExpr.Hint, BadNode range) are exempt from the field-use obligation"]


@_needs_driver()
def fragment_roundtrip_check(res, rnd, q):
    """the hypotheses of C01_fragment_roundtrip on real data: for every enumerated operator tree x (<= 3 operators, minimal and full
    spelling, + random deeper ones): the model's tree for x (positions erased) is canonical (canb), and the tokens the real lexer
    produces for SQL(ParseExpr(x)) agree with its canonical spelling (same_tokensb)"""
    # the 4-operator enumeration (thorough tier of C07) is millions of trees: here 3 operators in both tiers, more random deep trees in thorough
    cases = gens.precedence_cases(rnd, 3, 3000 if q else 200000)
    xs = sorted(set(x for x, _ in cases))
    inp = "\n".join(hexs(x) for x in xs) + "\n"
    shape = vlib.run_lines(vlib.HARNESS, ["expr-shape"], inp)
    sqls = []
    for l in shape:
        h = l.split(" => ", 1)[1].partition(" | ")[2].strip()
        sqls.append(unhex(h) if h else None)
    pairs = [(x, s_) for x, s_ in zip(xs, sqls) if s_ is not None]
    allstr = sorted(set([x for x, _ in pairs] + [s_ for _, s_ in pairs]))
    toks = dict(zip(allstr, [l.split(" => ", 1)[1] for l in vlib.run_lines(vlib.HARNESS, ["expr-toks"], "\n".join(hexs(s_) for s_ in allstr) + "\n")]))
    lines = [toks[x] + " | " + toks[s_] for x, s_ in pairs]
    out = vlib.run_lines(vlib.DRIVER, ["expr-c01"], "\n".join(lines) + "\n")
    from collections import Counter
    cnt = Counter(out)
    diffs = [(x, s_) for (x, s_), o in zip(pairs, out) if o == "DIFF"]
    for (x, s_) in diffs[:3]:
        res.violation("the printed text of an operator-core expression does not lex to the canonical spelling of its tree",
                      {"kind": "c01-fragment", "entry": "ParseExpr", "input_hex": hexs(x), "sql": s_.decode(errors="replace")[:300]})
    res.obligation("hypotheses of C01_fragment_roundtrip hold on %d enumerated operator trees (tree canonical; lex(SQL(tree)) == canonical spelling): %d checked, %d outside the expression model"
                   % (len(pairs), cnt.get("OK", 0), len(pairs) - cnt.get("OK", 0) - cnt.get("DIFF", 0)), not diffs and cnt.get("OK", 0) > 0, str(diffs[:2]))
    res.extra["fragment_roundtrip"] = {"inputs": len(xs), "with_sql": len(pairs), "verdicts": dict(cnt)}
    res.add_cases(len(pairs), cnt.get("OK", 0), [])


def c18(res, st, std_coq):
    std_coq(res, "C18", st, ("theories/GenChecks.v",))
    if not st["go"]:
        return
    rnd = random.Random(res.seed)
    info = gen_check(res, ("globals_ok",))
    q = res.tier == "quick"
    cases = gens.parser_cases(rnd, 300 if q else 5000, 100 if q else 2000, 60 if q else 1000)
    cases += gens.sentence_cases(rnd, 600 if q else 10000)
    # rejected inputs of the SAME length whose lines break elsewhere (error messages carry line:column and a source excerpt): a result that
    # depends on an earlier call with another text of the same name and size shows here
    errs = [(e, s + b" +") for (e, s) in cases[:: 12 if q else 40] if b" " in s] + [("ParseQuery", x) for x in gens.MULTILINE_ERRORS + gens.MULTIBYTE_BEFORE_ERROR]
    for (e, s) in errs:
        cases += [(e, y) for y in gens.same_length_line_pairs([s])]
    rnd.shuffle(cases)
    out = vlib.run_lines(vlib.HARNESS, ["c18", str(res.seed)], gens.case_lines(cases))
    fails = [l for l in out if l.startswith("FAIL ")]
    for l in fails[:10]:
        f = l.split()
        res.violation("result of a call depends on other calls / call order / concurrency: " + f[3],
                      {"kind": "c18", "entry": f[1], "input_hex": f[2], "key": f[3]})
    stat = [l for l in out if l.startswith("STAT")]
    res.extra["impl_runs"] = stat[0] if stat else ""
    # the same calls in two FRESH processes, in opposite orders: a result that depends on which call came first in the process shows here
    fwd = vlib.run_lines(vlib.HARNESS, ["c18-each"], gens.case_lines(cases))
    bwd = vlib.run_lines(vlib.HARNESS, ["c18-each"], gens.case_lines(cases[::-1]))
    dg = dict(tuple(l.rsplit(" ", 1)) for l in bwd if l.count(" ") == 2)
    nord = 0
    for l in fwd:
        if l.count(" ") != 2:
            continue
        k, d = l.rsplit(" ", 1)
        if dg.get(k, d) != d:
            nord += 1
            if nord <= 5:
                res.violation("result of a call depends on the calls made before it in the same process: result-depends-on-process-history",
                              {"kind": "c18", "entry": k.split()[0], "input_hex": k.split()[1], "key": "result-depends-on-process-history",
                               "how": "harness c18-each on the case list in the given and in the reversed order (two processes); digests differ"})
    res.extra["fresh_process_order_pairs"] = len(fwd)
    # the same under the race detector (support only; needs cgo, so it is attempted and reported, never required)
    race = {"attempted": False}
    if True:
        race = race_run(cases[:400])
        if race.get("races"):
            res.violation("data race reported by the Go race detector", {"kind": "c18-race", "report": race["report"][:1500]})
    res.extra["race_detector"] = race
    if res.broken:
        # an obligation on the global-state summary broke: hammer the implementation harder for a concrete witness
        more = gens.sentence_cases(rnd, 4000)
        out2 = vlib.run_lines(vlib.HARNESS, ["c18", str(res.seed + 1)], gens.case_lines(more))
        for l in [l for l in out2 if l.startswith("FAIL ")][:5]:
            f = l.split()
            res.violation("result of a call depends on other calls / call order / concurrency: " + f[3],
                          {"kind": "c18", "entry": f[1], "input_hex": f[2], "key": f[3]})
    res.add_cases(len(cases), len(set(cases)), [gens.case_lines(cases[:1]).strip()[:200]])
    res.cov["rule"] = ("theorem: every schedule of every set of write-free calls (abstract machine); obligation: the regenerated summary of all "
                       "package-level variables and write sites; support runs on the implementation: each input parsed repeatedly, in reversed "
                       "order, after mutating previously returned ASTs, and by 8 goroutines in random order (results compared with the first "
                       "sequential run); distinct = distinct (entry, input)")
    res.assumptions += ["the Go memory model and aliasing through returned values are not modelled; the race detector run (thorough tier) and the "
                        "mutate-after-return comparison are support, not proof",
                        "the translator's syntactic write-site summary (assignments, ++/--, &x, append/copy/delete/sort on a package-level "
                        "variable; shadowing treated conservatively) is trusted"]


def race_run(cases):
    env = dict(vlib.GOENV, CGO_ENABLED="1")
    exe = os.path.join(vlib.BUILD, "harness-race")
    p = vlib.sh(["go", "build", "-race", "-tags", "verif", "-o", exe, "."], cwd=os.path.join(vlib.ROOT, "harness"), env=env, timeout=900)
    if p.returncode != 0:
        return {"attempted": True, "built": False, "why": p.stderr.decode(errors="replace")[-300:]}
    p = vlib.sh([exe, "c18", "7"], input=gens.case_lines(cases).encode(), timeout=1800)
    err = p.stderr.decode(errors="replace")
    return {"attempted": True, "built": True, "races": "DATA RACE" in err, "report": err[-2000:] if "DATA RACE" in err else "", "exit": p.returncode}


def c03(res, st, std_coq, lexer_correspondence):
    std_coq(res, "C03", st, ("theories/GenChecks.v", "theories/Properties/C03_lexer.v"))
    cp = vlib.coq_property("C03_lexer")
    res.theorems += cp["theorems"]
    for t in cp["theorems"]:
        res.obligation("theorem " + t, cp["ok"], cp["log"][-500:])
    if not st["go"]:
        return
    rnd = random.Random(res.seed)
    gen_check(res, ("escape_ok",))
    q = res.tier == "quick"

    def fail(h, why):
        res.violation("lexer: " + why, {"kind": "lex-c03", "input_hex": h, "why": why})
    # lexer model (both modes) vs Lexer: outcome class and error range, exhaustive short strings + samples
    for mode, label in (("p", "C03 lexer, panic mode (outcome, error range)"), ("np", "C03 lexer, recovery mode (never fails)")):
        try:
            mism, _ = lexer_correspondence(res, mode, "c03", "-", label, fail, exh_len=4 if q else 5)
        except vlib.DriverMissing:
            res.extra.setdefault("skipped_without_driver", []).append("lexer_correspondence " + mode)
            continue
        seen = set()
        for (h, x, y) in mism:
            # the real lexer died with a runtime panic, looped or did not return: that input is a failing input of C03
            if h not in seen and any(k in x for k in ("CRASH", "LOOP", "TIMEOUT")):
                seen.add(h)
                fail(h, "the lexer %s on this input (%s mode)" % ("does not terminate" if "TIMEOUT" in x or "LOOP" in x else "panics with a runtime error", "recovery" if mode == "np" else "public"))
    # the property on the implementation: arbitrary byte strings, malformed first token, malformed token after ';', truncated escapes
    cases = gens.parser_cases(rnd, 2500 if q else 50000, 1500 if q else 30000, 200 if q else 4000)
    bad_tokens = [b"1a", b"'abc", b'"\\x', b"`", b"``", b"\x00", b"/*", b"0x", b"'\\u12", b"'" * 3 + b"a", b"b'\\xA", b"\xff", b"@", b"'\\400'", b"r'", b"$",
                  b'"\\x4', b"'\\U0001F60", b"`\\x"]
    entries = ["ParseStatement", "ParseStatements", "ParseQuery", "ParseExpr", "ParseType", "ParseDDL", "ParseDDLs", "ParseDML", "ParseDMLs"]
    for bt in bad_tokens:
        for e in entries:
            cases.append((e, bt))
            cases.append((e, b"SELECT 1; " + bt))
            cases.append((e, b"SELECT 1;" + bt + b"; SELECT 2"))
            cases.append((e, b"SELECT " + bt))
            cases.append((e, b"(" + bt))
            cases.append((e, b"SELECT 1 + " + bt))
    for _ in range(3000 if q else 60000):
        cases.append((rnd.choice(entries), gens.random_bytes(rnd, rnd.randrange(0, 16))))
    for _ in range(1500 if q else 30000):
        cases.append((rnd.choice(entries), gens.random_bytes(rnd, rnd.randrange(0, 30), gens.LEX_ALPHABET + [b"(", b")", b",", b"SELECT ", b"FROM ", b"[", b"]", b"{", b"}", b"CASE ", b"END "])))
    deep = [b"(" * 200 + b"1" + b")" * 200, b"- " * 300 + b"1", b"NOT " * 300 + b"a", b"[" * 100, b"CASE WHEN " * 60, b"ARRAY<" * 80 + b"INT64" + b">" * 80,
            b"SELECT " + b"(SELECT " * 50 + b"1" + b")" * 50, b"a" + b".b" * 500, b"1" + b" + 1" * 1000]
    for dd in deep:
        for e in ("ParseExpr", "ParseStatement", "ParseType", "ParseQuery"):
            cases.append((e, dd))
    cases += [(e, s) for s in gens.regression("C03") for e in ("ParseStatement", "ParseStatements", "ParseExpr")]
    # every truncation / deletion / error injection of the base sentences (unclosed nested sub-query openers, dangling clauses ...)
    cases += gens.injection_cases(rnd, q)
    for opener in (b"((SELECT 1", b"(((SELECT 1 FROM t", b"x IN ((SELECT 1 UNION ALL SELECT 2", b"SELECT * FROM ((SELECT 1 AS x", b"[((SELECT", b"f(((SELECT 1)"):
        for e in ("ParseExpr", "ParseQuery", "ParseStatement", "ParseStatements", "ParseDML", "ParseDDL"):
            cases.append((e, opener))
            cases.append((e, b"SELECT " + opener))
            cases.append((e, b"DELETE FROM t WHERE a = " + opener))
            cases.append((e, b"CREATE VIEW v SQL SECURITY INVOKER AS SELECT " + opener))
    report_oracle(res, "C03", cases, "an entry point panics, does not terminate or reports an untyped error")
    res.add_cases(len(cases), len(set(cases)), [gens.case_lines(cases[:1]).strip()[:200], gens.case_lines(cases[-1:]).strip()[:200]])
    # C03_type_parser_terminates is about Parse/TypeModel.v: tie it to ParseType (the extracted model answers, never FUEL, on every input)
    type_correspondence(res, rnd, q)
    type_recover_correspondence(res, rnd, q)
    # C03_statement_family_terminates / C03_comma_separated_lists_terminate are about Parse/StmtModel.v: tie it to the four entry points
    stmt_family_correspondence(res, rnd, q)
    res.cov["rule"] = ("theorems: lexer/splitter totality for all byte strings (model), escape analysis over every path of the regenerated skeleton; "
                       "correspondence: lexer outcome class and error range in both modes on all strings of <= 4/5 symbols over the 24-symbol alphabet + "
                       "samples; implementation: every entry point (with a 3 s watchdog) on corpus mutations, token soups, lists, every malformed "
                       "token kind as first token / after ';' / inside a statement, random bytes, random lexical-alphabet strings, deeply nested "
                       "inputs; distinct = distinct (entry, input)")
    res.assumptions += ["termination of parser productions and Go runtime panics inside productions (nil dereference, index) are not covered by the "
                        "skeleton (data is abstracted): they are sampled by the watchdog oracle",
                        "panics of non-*Error values (the BUG panics, handleError's re-panic) are outside the escape theorem and listed as residual",
                        "method calls are resolved by name to every method of that name; function values are attributed to the site where they are passed",
                        "stack exhaustion on extreme nesting and wall-clock bounds are not modelled"]


def skeleton_discipline(res):
    """diagnostics for the C09 obligation: which summary entries of Gen/SkeletonData.v are false"""
    import re
    src = open(os.path.join(vlib.COQ, "theories", "Gen", "SkeletonData.v")).read()
    bad = []
    for name in ("errors_writes", "bad_sites", "entry_shapes"):
        m = re.search(r"Definition %s : list \(string \* bool\) := \[(.*?)\]\." % name, src, re.S)
        body = m.group(1) if m else ""
        items = re.findall(r'\("([^"]+)", (true|false)\)', body)
        res.extra["skeleton_" + name] = len(items)
        bad += ["%s:%s" % (name, f) for f, v in items if v == "false"]
        if name != "errors_writes" and not items:
            bad.append(name + ":<empty>")
    res.obligation("error-list discipline of the regenerated summary (errors only appended; handleError before every BadNode; entry epilogues)",
                   not bad, ", ".join(bad))
    return bad


def c09(res, st, std_coq):
    std_coq(res, "C09", st, ("theories/GenChecks.v",))
    if not st["go"]:
        return
    rnd = random.Random(res.seed)
    gen_check(res, ("escape_ok",))
    skeleton_discipline(res)
    q = res.tier == "quick"
    cases = gens.parser_cases(rnd, 4000 if q else 80000, 1500 if q else 30000, 400 if q else 8000)
    cases += gens.sentence_cases(rnd, 1500 if q else 30000)
    g = gens.G(rnd, gens.gen_keywords())
    entries = ["ParseStatement", "ParseStatements", "ParseQuery", "ParseExpr", "ParseDDL", "ParseDML"]
    # structured error inputs: valid sentences with one token deleted / duplicated / replaced, nested constructs cut short
    for _ in range(3000 if q else 60000):
        e, s = rnd.choice([("ParseExpr", g.expr().encode()), ("ParseQuery", g.query().encode()), ("ParseStatement", g.ddl().encode()),
                           ("ParseStatement", g.dml().encode())])
        toks = s.split(b" ")
        k = rnd.randrange(4)
        i = rnd.randrange(len(toks))
        if k == 0:
            del toks[i]
        elif k == 1:
            toks.insert(i, rnd.choice([b"*", b")", b"(", b",", b"NEW Foo {a: 1, *", b"SELECT", b"}", b"]", b"FROM", b"1a"]))
        elif k == 2:
            toks = toks[:i]
        else:
            toks[i] = rnd.choice([b"(", b"[", b"CASE", b"WHEN", b";", b"STRUCT<", b"ARRAY<"])
        cases.append((e, b" ".join(toks)))
    for _ in range(1000 if q else 20000):
        cases.append((rnd.choice(entries), gens.random_bytes(rnd, rnd.randrange(0, 20))))
    cases += gens.systematic_cases(valid_only=False)
    cases += gens.injection_cases(rnd, q)
    cases += gens.control_byte_insertions(gens.systematic_cases(valid_only=False)[:: 6 if q else 1] + [(e, x.encode()) for (e, x) in gens.INJECT_BASE])
    cases += gens.control_byte_insertions([(e, s) for (e, s) in gens.cross_piece_context_lists()[:: 9 if q else 2]], 2)
    cases += [(e, s) for s in gens.regression("C09") for e in ("ParseStatement", "ParseExpr", "ParseDDL")]
    # many recovered failures in ONE input: every Bad node needs its error, however many there are
    for n in ((3, 101, 150) if q else (3, 101, 150, 1000)):
        cases += [("ParseExpr", b"[" + b"(+), " * n + b"(+)]"), ("ParseQuery", b"SELECT " + b"1 +, " * n + b"1 + FROM t"),
                  ("ParseDDLs", b"CREATE TABLE;\n" * n), ("ParseStatements", b"SELECT 1 +;\n" * n), ("ParseDMLs", b"DELETE FROM;\n" * n),
                  ("ParseExpr", b"f(" + b"CAST(1 AS x y), " * n + b"1)")]
    report_oracle(res, "C09", cases, "error contract violated")
    # C09_type_parser_contract is about Parse/TypeRecover.v: tie it to ParseType
    type_recover_correspondence(res, rnd, q)
    stmt_family_correspondence(res, rnd, q)
    res.add_cases(len(cases), len(set(cases)), [gens.case_lines(cases[:1]).strip()[:200], gens.case_lines(cases[-1:]).strip()[:200]])
    res.cov["rule"] = ("theorems on the trace model + syntactic obligations on the regenerated summary + escape theorem; implementation: corpus, "
                       "mutations, soups, lists, generated sentences, sentences with one token deleted/inserted/replaced/truncated, random bytes, systematic "
                       "error injection (every word of 29 base sentences replaced by a construct with an error inside, deleted, and pairs of a "
                       "parse-level error followed by a token that does not lex); "
                       "oracle = the property (nil error iff whole input consumed and no Bad node; MultiError with >= #BadNode elements; each element "
                       "has a message and 0 <= Pos <= End <= len); distinct = distinct (entry, input)")
    res.assumptions += ["the trace model abstracts the parser to its events on the error list; that only disciplined traces are possible rests on the "
                        "syntactic obligations (every write to `errors` is a one-element append, handleError precedes BadNode construction)",
                        "error positions of parser errors (errorfAtToken) are sampled; lexer error ranges are proved (C03_lexer_error_range)"]


# ---------------------------------------------------------------- properties decided on the fragment + implementation oracle
ORACLE_WHAT = {
    "C05": "a node position is out of range, unordered, not nested or not token-aligned",
    "C06": "input[Pos:End] is not exactly the node's own text",
    "C08": "a sentence of the reference grammar is rejected, or entry points disagree",
    "C10": "a Bad node does not capture exactly the skipped tokens",
    "C11": "a statement list does not compose from its stand-alone statements",
    "C16": "re-spelling whitespace, comments or keyword case changes the AST",
    "C07": "operator grouping differs from the GoogleSQL precedence table",
}


def spaced_spellings(cases, sep=b" "):
    """the same sentences with [sep] between every two tokens (token texts taken from the real lexer): a production that looks at raw
    bytes instead of tokens (adjacency of '.' and '*', of a sign and a digit ...) accepts one spelling and rejects the other"""
    uniq = sorted(set(cases))
    toks = vlib.run_lines(vlib.HARNESS, ["expr-toks"], "\n".join(hexs(x) for (_, x) in uniq) + "\n")
    out = []
    for (e, x), l in zip(uniq, toks):
        body = l.split(" => ", 1)[1]
        if body == "LEXERR":
            continue
        raws = [unhex(t.split(",")[1]) for t in body.split(";") if t and t.split(",")[1] != "-"]
        y = sep.join(raws)
        if y != x:
            out.append((e, y))
    return out


def fit_entries(s):
    """the entry points a sentence is meant for (C08 is about acceptance: a DDL sentence is not fed to ParseExpr)"""
    w = s.lstrip().split(None, 1)[0].upper() if s.strip() else b""
    if w in (b"CREATE", b"ALTER", b"DROP", b"RENAME", b"GRANT", b"REVOKE", b"ANALYZE"):
        return ("ParseStatement", "ParseDDL")
    if w in (b"INSERT", b"UPDATE", b"DELETE"):
        return ("ParseStatement", "ParseDML")
    if w in (b"SELECT", b"WITH", b"FROM") or s.lstrip().startswith((b"(SELECT", b"@{")):
        return ("ParseStatement", "ParseQuery")
    if w == b"CALL":
        return ("ParseStatement",)
    return ("ParseExpr",)


def valid_cases(rnd, q, n_sent):
    cases = gens.parser_cases(rnd, 1500 if q else 30000, 0, 400 if q else 8000)
    cases += gens.sentence_cases(rnd, n_sent)
    cases += gens.probe_cases()
    return cases


def error_cases(rnd, q):
    g = gens.G(rnd, gens.gen_keywords())
    out = gens.parser_cases(rnd, 3000 if q else 60000, 1000 if q else 20000, 200 if q else 4000)
    for _ in range(3000 if q else 60000):
        e, s = rnd.choice([("ParseExpr", g.expr().encode()), ("ParseQuery", g.query().encode()), ("ParseStatement", g.ddl().encode()),
                           ("ParseStatement", g.dml().encode()), ("ParseType", g.typ().encode()), ("ParseExpr", ("CAST(1 AS %s)" % g.typ()).encode())])
        toks = s.split(b" ")
        k = rnd.randrange(5)
        i = rnd.randrange(len(toks))
        if k == 0:
            del toks[i]
        elif k == 1:
            toks.insert(i, rnd.choice([b"*", b")", b"(", b",", b"NEW Foo {a: 1, *", b"SELECT", b"}", b"]", b"FROM", b"1a", b"x y", b"AS x.y", b">>", b"/*c*/", b"--c\n"]))
        elif k == 2:
            toks = toks[:i]
        elif k == 3:
            toks[i] = rnd.choice([b"(", b"[", b"CASE", b"WHEN", b";", b"STRUCT<", b"ARRAY<", b"foo bar", b"."])
        else:
            toks[i] = toks[i] + rnd.choice([b" x y", b" AS a.b", b" 1 2"])
        out.append((e, b" ".join(toks)))
    # broken types inside nested generics closed by '>>'
    for inner in (b"foo bar", b"x INT64 y", b"INT64 INT64", b"", b"a.b c"):
        for tmpl in (b"CAST(1 AS ARRAY<ARRAY<%s>>)", b"CAST(1 AS STRUCT<x ARRAY<%s>>)", b"CAST(1 AS ARRAY<STRUCT<%s>>)", b"ARRAY<STRUCT<a ARRAY<%s>>>[]", b"CAST(1 AS ARRAY<%s>)"):
            out.append(("ParseExpr", tmpl % inner))
            out.append(("ParseStatement", b"SELECT " + (tmpl % inner)))
    out += gens.injection_cases(rnd, q)
    return out


def sampled(res, st, std_coq, extra_vo=()):
    pid = res.pid
    have = os.path.exists(os.path.join(vlib.COQ, "theories", "Properties", pid + ".v"))
    if have:
        std_coq(res, pid, st, tuple(extra_vo))
    else:
        res.extra["theorems_pending"] = True
        res.obligation("go build + driver", st["go"] and st["driver"], st["log"])
    if not st["go"]:
        return
    rnd = random.Random(res.seed)
    q = res.tier == "quick"
    if pid in ("C10",):
        cases = error_cases(rnd, q)
    elif pid in ("C05",):
        cases = valid_cases(rnd, q, 4000 if q else 80000) + error_cases(rnd, q)[:3000 if q else 60000]
    elif pid == "C11":
        cases = list_cases(rnd, q) + gens.cross_piece_context_lists()
    elif pid == "C08":
        cases = gens.parser_cases(rnd, 0, 0, 0, valid_only=True) + gens.sentence_cases(rnd, 6000 if q else 120000)
        sysc = gens.systematic_cases()
        cases += spaced_spellings(sysc + cases[:1500 if q else 30000]) + spaced_spellings(sysc[::3], b"/**/")
    else:
        cases = valid_cases(rnd, q, 4000 if q else 80000)
    if pid != "C08" and pid != "C11":
        for e in ("ParseExpr", "ParseStatement", "ParseQuery"):
            cases += [(e, s) for s in gens.NEAR_MISS]
    for s in gens.regression(pid):
        cases += [(e, s) for e in (fit_entries(s) if pid == "C08" else ("ParseStatement", "ParseExpr", "ParseQuery", "ParseDDL", "ParseType"))]
    report_oracle(res, pid, cases, ORACLE_WHAT[pid])
    res.add_cases(len(cases), len(set(cases)), [gens.case_lines(cases[:1]).strip()[:200], gens.case_lines(cases[-1:]).strip()[:200]])
    if have and pid == "C16":
        respell_fragment(res, rnd, q)
        type_correspondence(res, rnd, q)
        respell_statements(res, rnd, q)
    if have and pid == "C10":
        recovery_correspondence(res, cases)
        type_recover_correspondence(res, rnd, q)
        stmt_family_correspondence(res, rnd, q)
    if have and pid == "C11":
        stmt_family_correspondence(res, rnd, q)
    if have and pid == "C05":
        stmt_family_correspondence(res, rnd, q)      # C05_family_statement_starts_at_its_first_token is about Parse/StmtModel.v
    if have and pid in ("C05", "C06", "C08"):
        # the theorems are about Parse/ExprModel.v: tie it to ParseExpr (full trees, every position) and evaluate the theorems'
        # hypothesis input_okb on every token list the real lexer produced
        ins = frag_inputs(rnd, q)
        frag_correspondence(res, ins, "expression fragment")
        res.add_cases(len(ins), len(set(ins)), [])
        type_correspondence(res, rnd, q)
    if have and pid == "C08":
        stmt_family_correspondence(res, rnd, q)
    return cases


def list_cases(rnd, q):
    """';'-separated lists: corpus statements and generated sentences, with empty statements, comments and whitespace around the
    separators, leading/trailing whitespace, EOF-sensitive forms (trailing commas)"""
    g = gens.G(rnd, gens.gen_keywords())
    corp = {k: [s.strip() for (kk, _, s) in gens.corpus() if kk == k] for k in ("ddl", "dml", "query", "statement")}
    triv = [b"", b" ", b"\n", b"\n  ", b"/*c*/", b" -- x\n", b"# y\n", b"\t", b" /* a;b */ "]
    out = []
    for _ in range(2500 if q else 50000):
        kind = rnd.choice(["stmt", "ddl", "dml"])
        entry = {"stmt": "ParseStatements", "ddl": "ParseDDLs", "dml": "ParseDMLs"}[kind]
        parts = []
        for _ in range(rnd.randrange(0, 5)):
            r = rnd.random()
            if r < 0.12:
                parts.append(b"")
                continue
            if kind == "stmt":
                st = rnd.choice([rnd.choice(corp["query"]), rnd.choice(corp["statement"]), rnd.choice(corp["ddl"]), rnd.choice(corp["dml"]),
                                 g.query().encode(), g.ddl().encode(), g.dml().encode(), b"SELECT 1,", b"SELECT a, b,"])
            elif kind == "ddl":
                st = rnd.choice([rnd.choice(corp["ddl"]), g.ddl().encode()])
                if st.startswith(b"CALL"):
                    st = b"DROP TABLE t"
            else:
                st = rnd.choice([rnd.choice(corp["dml"]), g.dml().encode(), b"INSERT INTO t (a, b) SELECT a, b,", b"INSERT INTO t (a) SELECT 1,"])
            parts.append(rnd.choice(triv) + st + rnd.choice(triv))
        s = b";".join(parts)
        if rnd.random() < 0.4:
            s += b";" + rnd.choice(triv)
        if rnd.random() < 0.4:
            s = rnd.choice([b"\n  ", b" ", b"\n", b"/*lead*/ ", b"\t"]) + s
        out.append((entry, s))
    # long lists: the same statement many times (a list shares ONE Parser; nothing may accumulate across statements:
    # nesting counters, depth limits, caches)
    rich = [b"SELECT * FROM t WHERE (a, b) IN ((1, 2), (3, 4))", b"SELECT ((((1)))), [1, 2], STRUCT(1 AS a), CASE WHEN a THEN (b) END FROM (SELECT 1) AS s",
            b"SELECT ARRAY<STRUCT<a INT64, b ARRAY<STRING>>>[], CAST(x AS ARRAY<ARRAY<INT64>>) FROM t", b"SELECT a.b.c[OFFSET(1)].d, f(g(h(1))), (SELECT (SELECT 1))",
            b"SELECT 1 UNION ALL (SELECT 2 INTERSECT ALL (SELECT 3))", b"SELECT NEW a.B {c: 1, d {e: [1, 2]}} AS x", b"SELECT @{a=1} * FROM t@{b=2} JOIN @{c=3} u USING (k)",
            b"SELECT IF(a, (b, c), (d, e)), x BETWEEN (1) AND (2), y IN UNNEST([(1, 2)])"]
    rich_ddl = [b"CREATE TABLE t (a INT64 NOT NULL, b ARRAY<STRING(MAX)>, c STRUCT<x INT64, y ARRAY<INT64>>) PRIMARY KEY (a)", b"CREATE INDEX i ON t (a, b DESC) STORING (c)",
                b"ALTER TABLE t ADD COLUMN d INT64 DEFAULT ((1 + (2)))", b"CREATE VIEW v SQL SECURITY INVOKER AS SELECT (a, b) FROM t"]
    rich_dml = [b"INSERT INTO t (a, b) VALUES ((1, 2), (3, 4)), ((5, 6), DEFAULT)", b"UPDATE t SET a = (1, 2), b = [(3)] WHERE (c, d) IN ((1, 2))", b"DELETE FROM t WHERE (a, b) IN ((1, 2), (3, 4))"]
    corp_q = [c for c in corp["query"] if len(c) < 300][:6 if q else 40]
    for n in ((70, 200) if q else (70, 200, 600)):
        for st in rich + corp_q:
            out.append(("ParseStatements", b";\n".join([st] * n) + rnd.choice([b"", b";", b";\n"])))
        for st in rich_ddl:
            out.append(("ParseDDLs", b";\n".join([st] * n)))
        for st in rich_dml:
            out.append(("ParseDMLs", b";\n".join([st] * n) + b";"))
    out += gens.truncated_piece_lists()
    out += gens.semicolon_insertions()
    return out


@_needs_driver(lambda: ({}, []))
def frag_correspondence(res, inputs, label):
    """extracted fragment parser (Parse/ExprModel.v) on the real lexer's tokens vs ParseExpr: same tree (all fields, positions
    included), same verdict; inputs outside the fragment (UNSUP) or not lexing are skipped and counted"""
    inp = "\n".join(hexs(x) for x in inputs) + "\n"
    toks = vlib.run_lines(vlib.HARNESS, ["expr-toks"], inp)
    go = vlib.run_lines(vlib.HARNESS, ["expr-go"], inp)
    md = vlib.run_lines(vlib.DRIVER, ["expr-model"], "\n".join(toks) + "\n")
    st = {"ok": 0, "ok_with_rest": 0, "err": 0, "unsup": 0, "lexerr": 0, "fuel": 0}
    bad = []
    for x, g_, m in zip(inputs, go, md):
        gm = g_.split(" => ", 1)[1]
        mm = m.split(" => ", 1)[1]
        if mm == "UNSUP":
            st["unsup"] += 1
            continue
        if mm == "LEXERR":
            st["lexerr"] += 1
            continue
        if mm in ("FUEL", "NOT-INPUT-OK"):
            # FUEL: the model's fuel bound was too small; NOT-INPUT-OK: the real lexer produced a token list outside the
            # hypothesis (input_ok) of the span theorems -- either way the theorems do not speak about this input
            st["fuel"] += 1
            bad.append((x, gm[:200], mm))
            continue
        if gm.startswith("PANIC"):
            bad.append((x, gm[:200], mm[:200]))
            continue
        nerr, dump = gm.split(" ", 1)
        if mm.startswith("ERR"):
            st["err"] += 1
            if nerr == "0":
                bad.append((x, gm[:300], mm))
            continue
        _, rest, mdump = mm.split(" ", 2)
        if rest == "1":
            st["ok"] += 1
            if nerr != "0" or dump != mdump:
                bad.append((x, gm[:400], mm[:400]))
        else:
            st["ok_with_rest"] += 1
            if nerr == "0" or dump != mdump:
                bad.append((x, gm[:400], mm[:400]))
    res.obligation("correspondence %s: ParseExpr == extracted fragment model on %d inputs (%d compared)" % (label, len(inputs), st["ok"] + st["ok_with_rest"] + st["err"]),
                   not bad, "\n".join("%r\n go:    %s\n model: %s" % b for b in bad[:3]))
    res.extra.setdefault("fragment_correspondence", []).append(dict(st, label=label, inputs=len(inputs), disagreements=len(bad)))
    return st, bad


@_needs_driver()
def type_correspondence(res, rnd, q):
    """extracted model of the whole type grammar (Parse/TypeModel.v) on the real lexer's tokens vs ParseType: same verdict, same
    tree with every position, same position of the first error"""
    inputs = gens.type_cases(rnd, q)
    inp = "\n".join(hexs(x) for x in inputs) + "\n"
    toks = vlib.run_lines(vlib.HARNESS, ["expr-toks"], inp)
    go = vlib.run_lines(vlib.HARNESS, ["type-go"], inp)
    md = vlib.run_lines(vlib.DRIVER, ["type-model"], "\n".join(toks) + "\n")
    st = {"ok": 0, "err": 0, "lexerr": 0, "fuel": 0}
    bad = []
    for x, g_, m in zip(inputs, go, md):
        gm = g_.split(" => ", 1)[1]
        mm = m.split(" => ", 1)[1]
        if mm == "LEXERR":
            st["lexerr"] += 1
            continue
        if mm in ("FUEL", "UNSUP", "NOT-INPUT-OK") or gm.startswith("PANIC"):
            # FUEL contradicts parse_type_total; NOT-INPUT-OK: the real lexer produced a token list outside the hypotheses of parse_type_span
            st["fuel"] += 1
            bad.append((x, gm[:200], mm[:200]))
            continue
        nerr, first, dump = gm.split(" ", 2)
        if mm.startswith("ERR"):
            st["err"] += 1
            if nerr == "0" or first != mm.split()[1]:
                bad.append((x, gm[:300], mm))
            continue
        st["ok"] += 1
        if nerr != "0" or dump != mm.split(" ", 1)[1]:
            bad.append((x, gm[:400], mm[:400]))
    for (x, g_, m) in bad[:3]:
        res.violation("ParseType and the model of the type grammar disagree (verdict, tree with positions, or position of the first error)",
                      {"kind": "type-correspondence", "entry": "ParseType", "input_hex": hexs(x), "go": g_, "model": m})
    res.obligation("correspondence: ParseType == extracted model of the type grammar on %d inputs (%d accepted, %d rejected with the same first error position, %d not lexing)"
                   % (len(inputs), st["ok"], st["err"], st["lexerr"]), not bad and st["ok"] > 0 and st["err"] > 0,
                   "\n".join("%r\n go:    %s\n model: %s" % b for b in bad[:3]))
    res.extra["type_correspondence"] = dict(st, inputs=len(inputs), disagreements=len(bad))
    res.add_cases(len(inputs), st["ok"] + st["err"], [])


@_needs_driver()
def type_recover_correspondence(res, rnd, q):
    """the TOTAL model of ParseType (Parse/TypeRecover.v: grammar + error recovery) on the real lexer's tokens vs ParseType, on accepted
    and rejected inputs alike: the whole tree with its BadType nodes and their tokens, the position of EVERY recorded error, the number of
    Bad nodes (the flag 'something separates this token from the previous one' of Bad-node tokens is not modelled and projected away)"""
    import re
    inputs = gens.type_cases(rnd, q)
    inp = "\n".join(hexs(x) for x in inputs) + "\n"
    toks = vlib.run_lines(vlib.HARNESS, ["expr-toks"], inp)
    go = vlib.run_lines(vlib.HARNESS, ["type-go-all"], inp)
    md = vlib.run_lines(vlib.DRIVER, ["type-recover"], "\n".join(toks) + "\n")
    norm = lambda s_: re.sub(r" B[01]\)", ")", s_)
    st = {"clean": 0, "recovered": 0, "lexerr": 0, "bad_nodes": 0, "errors": 0}
    bad = []
    for x, g_, m in zip(inputs, go, md):
        gm = g_.split(" => ", 1)[1]
        mm = m.split(" => ", 1)[1]
        if mm == "LEXERR":
            st["lexerr"] += 1
            continue
        if norm(gm) != mm:
            bad.append((x, gm[:400], mm[:400]))
            continue
        nerr, _, nbad = mm.split(" ", 3)[:3]
        st["clean" if nerr == "0" else "recovered"] += 1
        st["bad_nodes"] += int(nbad)
        st["errors"] += int(nerr)
    for (x, g_, m) in bad[:3]:
        res.violation("ParseType and the total model of the type parser (grammar + recovery) disagree (tree with Bad nodes, error positions)",
                      {"kind": "type-recover", "entry": "ParseType", "input_hex": hexs(x), "go": g_, "model": m})
    res.obligation("correspondence: ParseType == extracted total model (grammar + recovery) on %d inputs: %d clean, %d with recovery "
                   "(%d errors, %d Bad nodes compared)" % (len(inputs), st["clean"], st["recovered"], st["errors"], st["bad_nodes"]),
                   not bad and st["clean"] > 0 and st["recovered"] > 0, "\n".join("%r\n go:    %s\n model: %s" % b for b in bad[:3]))
    res.extra["type_recover_correspondence"] = dict(st, inputs=len(inputs), disagreements=len(bad))
    res.add_cases(len(inputs), st["clean"] + st["recovered"], [])


@_needs_driver()
def type_roundtrip_check(res, rnd, q):
    """the hypotheses of type_roundtrip on real data: for every accepted type input x: the model's tree for x is well formed (wf_tyb) and the
    tokens the real lexer produces for SQL(ParseType(x)) -- every '>>' read as two closing brackets -- agree with the spelling of that tree"""
    inputs = gens.type_cases(rnd, q)
    inp = "\n".join(hexs(x) for x in inputs) + "\n"
    sq = vlib.run_lines(vlib.HARNESS, ["type-sql"], inp)
    pairs = []
    for x, l in zip(inputs, sq):
        h = l.split(" => ", 1)[1].strip()
        if h != "ERR":
            pairs.append((x, unhex(h) if h != "-" else b""))
    allstr = sorted(set([x for x, _ in pairs] + [s_ for _, s_ in pairs]))
    toks = dict(zip(allstr, [l.split(" => ", 1)[1] for l in vlib.run_lines(vlib.HARNESS, ["expr-toks"], "\n".join(hexs(s_) for s_ in allstr) + "\n")]))
    out = vlib.run_lines(vlib.DRIVER, ["type-c01"], "\n".join(toks[x] + " | " + toks[s_] for x, s_ in pairs) + "\n")
    from collections import Counter
    cnt = Counter(out)
    diffs = [(x, s_, o) for (x, s_), o in zip(pairs, out) if o != "OK"]
    for (x, s_, o) in diffs[:3]:
        res.violation("the printed text of a type does not lex to the spelling of its tree (%s)" % o,
                      {"kind": "c01-type", "entry": "ParseType", "input_hex": hexs(x), "sql": s_.decode(errors="replace")[:300], "verdict": o})
    res.obligation("hypotheses of type_roundtrip hold on %d accepted type inputs (tree well formed; lex(SQL(tree)) == spelling of the tree)" % len(pairs),
                   not diffs and cnt.get("OK", 0) > 0, str(diffs[:2]))
    res.extra["type_roundtrip"] = {"inputs": len(inputs), "accepted": len(pairs), "verdicts": dict(cnt)}
    res.add_cases(len(pairs), cnt.get("OK", 0), [])


@_needs_driver()
def stmt_family_correspondence(res, rnd, q):
    """the statement family of Parse/StmtModel.v (twenty-four DDL statements, with the recover points of parseDDL / parseStatementInternal) under
    ParseDDL, ParseStatement and -- through the list loop of Parse/ListLoop.v -- ParseDDLs, ParseStatements, on the real lexer's tokens: number
    of errors and every returned node with every position, Bad nodes with their tokens included (the 'separated' flag of Bad-node tokens is
    projected away); inputs that leave the family are skipped and counted"""
    import re
    single, lists = gens.stmt_family_cases(rnd, q)
    norm = lambda s_: re.sub(r" B[01]\)", ")", s_).rstrip()
    total = {"compared": 0, "outside": 0, "lexerr": 0}
    bad = []
    for entry, ins in (("ParseDDL", single), ("ParseStatement", single), ("ParseDDLs", lists + single[:3000]), ("ParseStatements", lists + single[:3000])):
        inp = "\n".join(hexs(x) for x in ins) + "\n"
        toks = vlib.run_lines(vlib.HARNESS, ["expr-toks"], inp)
        go = vlib.run_lines(vlib.HARNESS, ["stmt-go", entry], inp)
        md = vlib.run_lines(vlib.DRIVER, ["stmt-model", entry], "\n".join(toks) + "\n")
        for x, g_, m in zip(ins, go, md):
            gm = g_.split(" => ", 1)[1]
            mm = m.split(" => ", 1)[1]
            if mm == "UNSUP":
                total["outside"] += 1
            elif mm == "LEXERR":
                total["lexerr"] += 1
            elif norm(gm) != mm.rstrip():
                bad.append((entry, x, gm[:400], mm[:400]))
            else:
                total["compared"] += 1
    for (entry, x, g_, m) in bad[:3]:
        res.violation("%s and the model of the statement family disagree (errors, nodes with positions, Bad nodes)" % entry,
                      {"kind": "stmt-family", "entry": entry, "input_hex": hexs(x), "go": g_, "model": m})
    res.obligation("correspondence: ParseDDL / ParseStatement / ParseDDLs / ParseStatements == extracted statement-family model + list loop "
                   "(%d compared, %d outside the family)" % (total["compared"], total["outside"]), not bad and total["compared"] > 1000,
                   "\n".join("%s %r\n go:    %s\n model: %s" % b for b in bad[:3]))
    res.extra["stmt_family_correspondence"] = dict(total, disagreements=len(bad))
    res.add_cases(total["compared"] + total["outside"] + total["lexerr"], total["compared"], [])


C10_TARGETED = [b"CAST(1 AS ARRAY<STRUCT<x y>>)", b"CAST(1 AS ARRAY<STRUCT<a INT64, b c d>>)", b"CAST(1 AS ARRAY<ARRAY<x y>>) + 1", b"CAST(1 AS STRUCT<x y>>)",
                b"CAST(x AS ARRAY<STRUCT<a ARRAY<b c>>>)", b"SELECT (1 + ) , x", b"SELECT CASE WHEN 1 2 THEN 3 END, y", b"SELECT a b c FROM t", b"SELECT f(1 2, [3 4]) AS x",
                b"(SELECT 1 2 UNION ALL SELECT 3) UNION ALL SELECT 4 5", b"SELECT * FROM (SELECT 1 2) UNION ALL SELECT 3", b"SELECT 1 2; SELECT 3",
                b"CREATE TABLE t (a INT64 x y, b ARRAY<c d>) PRIMARY KEY (a)", b"INSERT INTO t (a) VALUES (1 2), (3)", b"SELECT 1 /* unterminated",
                b"SELECT (1 'abc", b"SELECT 1a, 2", b"SELECT [1 2] OFFSET 3", b"SELECT {a: 1 2} FROM t", b"SELECT IF(a b, c, d) x y"]


@_needs_driver()
def recovery_correspondence(res, cases):
    """the Bad nodes of real trees vs the Bad nodes predicted by the handler model (Parse/Recovery.v) run from the state of the
    recovery-mode scan whose current token starts at NodePos"""
    extra = [(e, s) for s in C10_TARGETED for e in ("ParseExpr", "ParseStatement", "ParseQuery", "ParseType", "ParseDDL", "ParseDML")]
    g = vlib.run_lines(vlib.HARNESS, ["bad-nodes"], gens.case_lines(cases + extra))
    withbad = [l for l in g if not l.endswith("=> ") and not l.endswith("=>") and not l.endswith("PANIC")]
    m = vlib.run_lines(vlib.DRIVER, ["bad-model"], "\n".join(withbad) + "\n")
    from collections import Counter
    cnt = Counter(); kinds = Counter(); bad = []
    for gl, ml in zip(withbad, m):
        for b in gl.split(" => ", 1)[1].split(";"):
            if b:
                kinds[b.split(":")[0]] += 1
        for v in ml.split(" => ", 1)[1].split(";"):
            if v:
                cnt[v.split("(")[0]] += 1
                if v.startswith("MISMATCH"):
                    bad.append((gl.split()[0], gl.split()[1], v))
    res.obligation("correspondence handler model: %d Bad nodes of real trees == Bad nodes predicted by Parse/Recovery.v (NodePos, NodeEnd, number of tokens)" % sum(cnt.values()),
                   not bad, "\n".join("%s %s %s" % b for b in bad[:5]))
    res.extra["recovery_correspondence"] = {"inputs_with_bad_nodes": len(withbad), "verdicts": dict(cnt), "by_wrapper": dict(kinds),
                                            "note": "NOSTATE = NodePos is not the start of a token of the recovery-mode scan (second half of a split '>>'); not compared"}


@_needs_driver()
def respell_fragment(res, rnd, q):
    """C16 on the expression fragment: (1) the model the theorems are about is ParseExpr on the sampled inputs AND on their re-spellings,
    (2) the theorems' hypothesis (same_tokens_ci, decidable) holds between the real lexer's token list of each input and of each
    re-spelling produced by the harness (trivia forms, keyword case, pseudo-keyword case)"""
    g = gens.G(rnd, gens.gen_keywords())
    xs = []
    for _ in range(2500 if q else 50000):
        xs.append(gens.t_spell(gens.random_op_tree(rnd, rnd.randrange(1, 6))).encode())
    for _ in range(2500 if q else 50000):
        xs.append(g.expr().encode())
    xs += [b"a[OFFSET(1)]", b"a[safe_ordinal(x)].b", b"NOT a IS NOT NULL", b"x NOT BETWEEN 1 AND -2", b"(1, 'a', b'c')", b"a.b.c[0] IN UNNEST(@p)",
           b"-+-1 || ~x", b"TRUE AND FALSE OR NULL", b"a NOT LIKE r'x'"]
    xs = sorted(set(xs))
    inp = "\n".join(hexs(x) for x in xs) + "\n"
    pairs = [l.split() for l in vlib.run_lines(vlib.HARNESS, ["expr-respell"], inp)]
    ys = sorted(set(unhex(p[1]) for p in pairs))
    frag_correspondence(res, ys, "re-spelled expressions")
    allstr = sorted(set([unhex(p[0]) for p in pairs] + ys))
    toks = dict(zip([hexs(s) for s in allstr],
                    [l.split(" => ", 1)[1] for l in vlib.run_lines(vlib.HARNESS, ["expr-toks"], "\n".join(hexs(s) for s in allstr) + "\n")]))
    lines = [toks[p[0]] + " | " + toks[p[1]] for p in pairs if toks[p[0]] != "LEXERR" and toks[p[1]] != "LEXERR"]
    out = vlib.run_lines(vlib.DRIVER, ["expr-sim"], "\n".join(lines) + "\n")
    from collections import Counter
    cnt = Counter(out)
    bad = [(p, o) for p, o in zip([p for p in pairs if toks[p[0]] != "LEXERR" and toks[p[1]] != "LEXERR"], out) if o not in ("SAME", "SAME-CI")]
    lexerr = [p for p in pairs if toks[p[1]] == "LEXERR"]
    for p in lexerr[:3]:
        res.violation("a re-spelling of an accepted expression does not lex", {"kind": "c16-respell-lex", "input_hex": p[0], "respelled_hex": p[1]})
    for (p, o) in bad[:3]:
        res.violation("re-spelling trivia / keyword case changes the token kinds or values seen by the parser",
                      {"kind": "c16-respell-tokens", "input_hex": p[0], "respelled_hex": p[1], "verdict": o})
    res.obligation("hypothesis of the C16 theorems (same_tokens_ci) holds on %d (input, re-spelling) pairs from the real lexer" % len(lines),
                   not bad and not lexerr, str(bad[:2]))
    res.extra["respell_fragment"] = {"inputs": len(xs), "accepted_pairs": len(pairs), "verdicts": dict(cnt)}
    res.add_cases(len(pairs), len(set(p[1] for p in pairs)), [])


@_needs_driver()
def respell_statements(res, rnd, q):
    """C16 on the statement family: every valid form and a sample of damaged ones, re-spelled (letter case of every keyword / pseudo keyword;
    white space and comments between all tokens): (1) the hypothesis of the theorems (same_stmt_tokensb, decidable) holds between the real
    lexer's token lists of the input and of the re-spelling, (2) the model the theorems are about is ParseStatement on the re-spellings as
    well, (3) ParseStatement returns the same dump up to position values on both"""
    import re
    single, _ = gens.stmt_family_cases(rnd, True)
    base = [v.encode() for v in gens.STMT_VALID] + rnd.sample(single, min(len(single), 1500 if q else 20000))
    flips = [lambda w: w.lower(), lambda w: w.capitalize(), lambda w: w[:1].lower() + w[1:], lambda w: w.upper()]
    seps = [b"  ", b"\n", b"\t", b" /*c*/ ", b" -- x\n", b"\x0c", b" # y\n "]
    pairs = []
    for n, x in enumerate(base):
        if re.search(rb"`[^`]* [^`]*`", x) or x.count(b"`") % 2:
            continue          # a blank inside a quoted identifier is part of the name, not a separator
        ws = x.split(b" ")
        for k in range(2):
            f = flips[(n + k) % len(flips)]
            sp = seps[(n + 3 * k) % len(seps)]
            y = sp.join((f(w) if w.isalpha() and w.isupper() else w) for w in ws)
            pairs.append((x, y))
    allstr = sorted(set([a for a, _ in pairs] + [b for _, b in pairs]))
    inp = "\n".join(hexs(s_) for s_ in allstr) + "\n"
    toks = dict(zip(allstr, [l.split(" => ", 1)[1] for l in vlib.run_lines(vlib.HARNESS, ["expr-toks"], inp)]))
    go = dict(zip(allstr, [l.split(" => ", 1)[1] for l in vlib.run_lines(vlib.HARNESS, ["stmt-go", "ParseStatement"], inp)]))
    md = dict(zip(allstr, [l.split(" => ", 1)[1] for l in vlib.run_lines(vlib.DRIVER, ["stmt-model", "ParseStatement"], "\n".join(hexs(s_) + " => " + toks[s_] for s_ in allstr) + "\n")]))
    usable = [(a, b) for (a, b) in pairs if toks[a] != "LEXERR" and toks[b] != "LEXERR"]
    verdicts = vlib.run_lines(vlib.DRIVER, ["stmt-sim"], "\n".join(toks[a] + " | " + toks[b] for a, b in usable) + "\n")
    up = lambda m: " " + bytes.fromhex(m.group(1)).upper().hex()
    # positions erased; identifier values and token texts compared up to letter case (a pseudo keyword may stand in a name position)
    nopos = lambda d: re.sub(r"\bS((?:[0-9a-f]{2})+)\b", lambda m: "S" + bytes.fromhex(m.group(1)).upper().hex(),
                             re.sub(r" ((?:[0-9a-f]{2})+)(?= )", up, re.sub(r"P-?\d+", "P", re.sub(r" B[01]\)", ")", d))))
    bad_h, bad_go, bad_model, infam = [], [], [], 0
    for (a, b), v in zip(usable, verdicts):
        if v != "SAME":
            bad_h.append((a, b, v))
        if nopos(go[a]) != nopos(go[b]):
            bad_go.append((a, b))
        for s_ in (a, b):
            if md[s_] not in ("UNSUP", "LEXERR"):
                infam += 1
                if re.sub(r" B[01]\)", ")", go[s_]).rstrip() != md[s_].rstrip():
                    bad_model.append(s_)
    for (a, b, v) in bad_h[:3]:
        res.violation("re-spelling trivia / keyword case changes the token kinds or values seen by the statement parser",
                      {"kind": "c16-stmt-tokens", "entry": "ParseStatement", "input_hex": hexs(a), "respelled_hex": hexs(b), "verdict": v})
    for (a, b) in bad_go[:3]:
        res.violation("ParseStatement returns different trees (up to positions and letter case) for a statement and its re-spelling",
                      {"kind": "c16-stmt-go", "entry": "ParseStatement", "input_hex": hexs(a), "respelled_hex": hexs(b), "go": go[a][:300], "go_respelled": go[b][:300]})
    for s_ in bad_model[:3]:
        res.violation("ParseStatement and the model of the statement family disagree on a re-spelled statement",
                      {"kind": "stmt-family", "entry": "ParseStatement", "input_hex": hexs(s_), "go": go[s_][:300], "model": md[s_][:300]})
    res.obligation("hypothesis of the C16 statement theorems (same_stmt_tokensb) holds on %d (statement, re-spelling) pairs from the real lexer; "
                   "the model is ParseStatement on both sides (%d comparisons)" % (len(usable), infam),
                   not bad_h and not bad_model and len(usable) > 500, str(bad_h[:2]) + str(bad_model[:2]))
    res.extra["respell_statements"] = {"pairs": len(pairs), "usable": len(usable), "in_family_comparisons": infam, "hypothesis_failures": len(bad_h),
                                       "go_differs": len(bad_go), "model_differs": len(bad_model)}
    res.add_cases(len(pairs), len(set(b for _, b in pairs)), [])


def frag_inputs(rnd, q):
    g = gens.G(rnd, gens.gen_keywords())
    ins = [s for s in gens.NEAR_MISS]
    for _ in range(4000 if q else 80000):
        t = gens.random_op_tree(rnd, rnd.randrange(1, 7))
        ins.append(gens.t_spell(t).encode())
    for _ in range(3000 if q else 60000):
        ins.append(gens.mutate(rnd, gens.t_spell(gens.random_op_tree(rnd, rnd.randrange(1, 5))).encode()))
    for _ in range(2000 if q else 40000):
        ins.append(g.expr().encode())
    for _ in range(1500 if q else 30000):
        ins.append(gens.token_soup(rnd, rnd.randrange(1, 10)))
    return ins


def c07(res, st, std_coq):
    std_coq(res, "C07", st, ("theories/GenChecks.v", "theories/Parse/RoundTrip.v"))
    if not st["go"]:
        return
    rnd = random.Random(res.seed)
    gen_check(res, ("printer_ok",))
    q = res.tier == "quick"
    # all trees with <= 3 operators in both spellings in both tiers (the 4-operator enumeration is tens of millions of strings and
    # needed > 30 GB here); the thorough tier adds 400 000 random deeper trees instead
    cases = gens.precedence_cases(rnd, 3, 4000 if q else 400000)
    inputs = [x for x, _ in cases]
    # (1) the model is the code: fragment parser vs ParseExpr on the property's enumeration and on arbitrary fragment-ish inputs
    bad_all = []
    for ins_, label in ((inputs, "operator trees (<= 3 operators, minimal and full spelling) + random deeper trees"),
                        (frag_inputs(rnd, q) + [b"((a + b)) * c", b"-((a))", b"((a | b)).c", b"x IN (((1)), 2)", b"(((a)))", b"((a)) + ((b))", b"NOT ((a))", b"((a, b))"],
                         "random/mutated fragment expressions, near-miss inputs, token soups, nested parentheses")):
        r_ = frag_correspondence(res, ins_, label)
        if r_ and r_[1]:
            bad_all += r_[1]
    # the model is proved to group by the table and to keep every explicit parenthesis as a ParenExpr around exactly its operand: an input on
    # which ParseExpr returns another tree than the model is an input on which it violates C07 (or leaves the modelled fragment's behaviour)
    for (x, g_, m_) in bad_all[:3]:
        res.violation("ParseExpr groups or parenthesises differently from the fragment model proved against the precedence table",
                      {"kind": "c07-model", "entry": "ParseExpr", "input_hex": hexs(x), "go": g_, "model": m_})
    # (2) the property on the implementation: grouping = the table's grouping; SQL() adds and drops no parenthesis
    out = vlib.run_lines(vlib.HARNESS, ["expr-shape"], "\n".join(hexs(x) for x in inputs) + "\n")
    nbad = 0
    for (x, want), l in zip(cases, out):
        body = l.split(" => ", 1)[1]
        got, _, sqlhex = body.partition(" | ")
        if got != want:
            nbad += 1
            if nbad <= 10:
                res.violation("operator grouping differs from the GoogleSQL table", {"kind": "c07-shape", "entry": "ParseExpr", "input_hex": hexs(x), "expected": want[:400], "observed": got[:400]})
            continue
        sql = vlib.unhex(sqlhex.strip()) if sqlhex.strip() else b""
        if sql.count(b"(") != x.count(b"("):
            nbad += 1
            if nbad <= 10:
                res.violation("SQL() adds or drops a parenthesis", {"kind": "c07-paren", "entry": "ParseExpr", "input_hex": hexs(x), "sql": sql.decode(errors="replace")[:300]})
    res.extra["shape_cases"] = len(cases)
    res.extra["shape_failures"] = nbad
    res.add_cases(len(cases), len(set(inputs)), [cases[7][0].decode() + "  ==>  " + cases[7][1], cases[len(cases) // 2][0].decode() + "  ==>  " + cases[len(cases) // 2][1]])
    res.cov["rule"] = ("every expression tree with <= %d operator occurrences over the 20 binary operators, NOT, unary + - ~, field access, subscript, IS, IN, BETWEEN, "
                       "in the spelling with minimal parentheses (by the table) and with a parenthesis around every operand, plus random deeper trees; for each: "
                       "(i) ParseExpr's tree compared with the extracted Coq fragment parser run on the real lexer's tokens, (ii) ParseExpr's grouping compared "
                       "with the grouping the table prescribes (computed by the generator, independent of parser.go), (iii) SQL() keeps the number of "
                       "parentheses; distinct = distinct inputs" % 3)
    res.assumptions += ["the round-trip theorem covers binary/unary/NOT operators, the whole comparison family (incl. IS, IN, BETWEEN, LIKE), parentheses and primaries; field access, subscript, "
                        "tuples are in the executable model and its correspondence but not yet in the theorem (C07_..._partial in DESIGN.md)",
                        "tokens are taken from the real lexer (lexer conformance is C13/C14); spell/lexer agreement is sampled by (ii)"]
