"""C15: quoting functions are right inverses of lexing"""
import os, random
from concurrent.futures import ThreadPoolExecutor
import vlib, gens
from vlib import hexs


def c15(res, st, std_coq):
    std_coq(res, "C15", st)
    if not (st["go"] and st["driver"]):
        return
    rnd = random.Random(res.seed)
    tbl = os.path.join(vlib.BUILD, "isprint-%s-%d.tbl" % (res.pid, os.getpid()))   # per run: checks may run side by side
    import atexit
    atexit.register(lambda p=tbl: os.path.exists(p) and os.remove(p))
    with open(tbl, "w") as f:
        f.write("\n".join(vlib._run_out([vlib.HARNESS, "isprint-table"])) + "\n")
    # unicode tables / utf8 of the model vs Go
    g = vlib._run_out([vlib.HARNESS, "utf8-sweep"]); m = vlib._run_out([vlib.DRIVER, "utf8-sweep"])
    res.obligation("Base/Utf8.v == Go utf8.EncodeRune/DecodeRuneInString/unicode.IsSpace (all code points, all 1-2 byte strings, boundary 3-4 byte strings)", g == m, "%s vs %s" % (g, m))
    shards = [("bytes", ["2", str(a), str(a + 16)]) for a in range(0, 256, 16)]
    shards += [("runes", [str(a), str(min(a + 0x11000, 0x110000))]) for a in range(0, 0x110000, 0x11000)]
    if res.tier == "thorough":
        shards += [("bytes", ["3", str(a), str(a + 1)]) for a in (0x22, 0x27, 0x5c, 0x60, 0x0a, 0x61, 0xc3, 0xe2, 0xf0, 0xff)]

    def one(sh):
        mode, args = sh
        gl = vlib._run_out([vlib.HARNESS, "quote-exh", mode] + args)
        ml = vlib._run_out([vlib.DRIVER, "quote-exh", tbl, mode] + args)
        fails = [l for l in gl if l.startswith("FAIL ")]
        nontriv = sum(int(l.split()[1]) for l in gl if l.startswith("NONTRIV "))
        gl = [l for l in gl if not l.startswith("FAIL ") and not l.startswith("NONTRIV ")]
        mism = []
        if gl != ml:
            for (i, a, b) in vlib.first_diffs(gl, ml, 2):
                blk = str(int(a.split()[0]) - 1)
                gv = [l for l in vlib._run_out([vlib.HARNESS, "quote-exh", mode] + args + [blk]) if not l.startswith("FAIL ") and not l.startswith("NONTRIV ")]
                mv = vlib._run_out([vlib.DRIVER, "quote-exh", tbl, mode] + args + [blk])
                for (_, x, y) in vlib.first_diffs(gv, mv, 3):
                    mism.append((x.split(" => ")[0], x, y))
        return fails, mism, nontriv

    with ThreadPoolExecutor(max_workers=16) as ex:
        rs = list(ex.map(one, shards))
    fails = [(l.split()[1], " ".join(l.split()[2:])) for f, _, _ in rs for l in f]
    mism = [x for _, mm, _ in rs for x in mm]
    nexh = 1 + 256 + 65536 + 0x110000 - 2048
    # random longer strings
    ins = gens.regression("C15")
    pool = [b"'", b'"', b"`", b"\\", b"\n", b"\r", b"\t", b"a", b"Z", b"_", b"0", b" ", b"\x00", b"\x7f", b"\x80", b"\xff", b"\xc3\xa9",
            "日".encode(), "​".encode(), "\U0001F600".encode(), b"\xed\xa0\x80", b"\xf4\x90\x80\x80", b"\xc0\xaf", b"SELECT", b"select", b"x"]
    for _ in range(4000 if res.tier == "quick" else 100000):
        ins.append(b"".join(rnd.choice(pool) for _ in range(rnd.randrange(0, 9))))
    for _ in range(2000 if res.tier == "quick" else 50000):
        ins.append(gens.random_bytes(rnd, rnd.randrange(1, 12)))
    # every reserved keyword (from the regenerated table) in upper, lower and mixed case, and with one character added/removed:
    # QuoteSQLIdent may return a name unquoted only if it is not a keyword
    kws = keywords_from_gen()
    for k in kws:
        low = k.lower()
        mixed = bytes(c ^ 0x20 if (i % 2 and 65 <= c <= 90) else c for i, c in enumerate(k))
        ins += [k, low, mixed, k.capitalize(), k + b"_", b"_" + k, k[:-1], k + b"1", low + b" ", k + b"`"]
    res.extra["keywords_exercised"] = len(kws)
    inp = ("\n".join(hexs(x) for x in ins) + "\n").encode()
    g = vlib._run_out([vlib.HARNESS, "quote-cases"], inp)
    m = vlib._run_out([vlib.DRIVER, "quote-cases", tbl], inp)
    for x, y in zip(g, m):
        if x != y:
            mism.append((x.split(" => ")[0], x, y))
    out = vlib._run_out([vlib.HARNESS, "quote-prop"], inp)
    fails += [(l.split()[1], " ".join(l.split()[2:])) for l in out if l.startswith("FAIL ")]
    for (h, why) in fails:
        res.violation("quoting is not a right inverse of lexing: " + why, {"kind": "quote-c15", "input_hex": h, "why": why})
    failed = set(h for (h, _) in fails)
    rest = [t for t in mism if t[0] not in failed]
    res.obligation("correspondence quote model: token.QuoteSQL{String,Bytes,Ident} == extracted Coq model on %d values" % (nexh + len(ins)),
                   not rest, "\n".join("%s\n  go:    %s\n  model: %s" % t for t in rest[:5]))
    res.add_cases(nexh + len(ins), sum(n for _, _, n in rs) + len(set(ins)), [g[0][:200], g[len(g) // 2][:200], g[-1][:200]])
    res.cov["rule"] = ("every 0-, 1- and 2-byte string over all 256 byte values, 'a'+c+\"'\" for every Unicode code point c, random longer strings "
                       "(quotes, backslashes, control characters, invalid UTF-8, keywords); on each: C15 evaluated on the real QuoteSQL* + Lexer "
                       "(oracle) and the three outputs compared with the extracted Coq model (is_print instantiated with a table dumped from "
                       "Go's unicode.IsPrint in this run); non-trivial = needs an escape or the alternative quote (counted by the harness on the exhaustive part) "
                       "/ distinct random values")
    res.assumptions += ["unicode.IsPrint is universally quantified in the theorems; only the correspondence uses Go's table",
                        "fmt %02x/%04x/%08x modelled by hex_fixed (compared on every case)"]


def keywords_from_gen():
    """the keyword table as regenerated by the translator from token/keywords.go (comment after each row)"""
    import re
    src = open(os.path.join(vlib.COQ, "theories", "Gen", "Keywords.v")).read()
    return [m.encode() for m in re.findall(r"\(\* ([A-Z_]+) \*\)", src)]
