"""Input generators shared by the checks.  Every random choice comes from the Random passed in."""
import os, random

ROOT = os.path.dirname(os.path.dirname(os.path.abspath(__file__)))


def corpus(kinds=("ddl", "dml", "expr", "query", "statement")):
    """upstream test inputs (frozen copy under corpus/upstream): list of (kind, name, bytes)"""
    out = []
    for k in kinds:
        d = os.path.join(ROOT, "corpus", "upstream", k)
        for f in sorted(os.listdir(d)):
            with open(os.path.join(d, f), "rb") as fh:
                out.append((k, f, fh.read()))
    return out


def regression(pid):
    """minimised past disagreements / regression inputs for a property: corpus/regress/<pid>.txt, one hex per line"""
    p = os.path.join(ROOT, "corpus", "regress", pid + ".txt")
    if not os.path.exists(p):
        return []
    out = []
    for line in open(p):
        line = line.split("#")[0].strip()
        if line:
            out.append(b"" if line == "-" else bytes.fromhex(line))
    return out


LEX_ALPHABET = [b"a", b"e", b"x", b"B", b"r", b"_", b"0", b"1", b"9", b".", b"'", b'"', b"`", b"\\",
                b"-", b"/", b"*", b"#", b"\n", b" ", b";", b"<", b">", b"@"]

TOKENS = [b"SELECT", b"FROM", b"WHERE", b"AS", b"a", b"b", b"t", b"1", b"2.5", b"'s'", b'"d"', b"`q`", b"(", b")",
          b",", b";", b"+", b"-", b"*", b"/", b"=", b"<", b">", b"<=", b">>", b"<<", b"||", b"|", b"&", b"^", b"~",
          b".", b"[", b"]", b"{", b"}", b"@p", b"@", b"NOT", b"AND", b"OR", b"IN", b"IS", b"NULL", b"BETWEEN",
          b"LIKE", b"CASE", b"WHEN", b"THEN", b"ELSE", b"END", b"ARRAY", b"STRUCT", b"CAST", b"INT64", b"STRING",
          b"UNNEST", b"JOIN", b"ON", b"UNION", b"ALL", b"DISTINCT", b"ORDER", b"BY", b"LIMIT", b"CREATE", b"TABLE",
          b"INSERT", b"INTO", b"VALUES", b"UPDATE", b"SET", b"DELETE", b"b'x'", b"r'y'", b"0x1F", b"1e3", b".5",
          b"/*c*/", b"--c\n", b"#c\n", b"'''t'''", b"TRUE", b"FALSE", b"x.y", b"IF", b"EXISTS", b"WITH", b"->", b"=>",
          b"!=", b"<>", b"|>", b"NEW", b"INTERVAL", b"DATE", b"HASH", b"TABLESAMPLE", b"DEFAULT", b"PRIMARY", b"KEY"]

SPACES = [b" ", b" ", b" ", b"\n", b"\t", b"  ", b"\r\n", b"", b""]


def token_soup(rnd, n):
    out = []
    for _ in range(n):
        out.append(rnd.choice(TOKENS))
        out.append(rnd.choice(SPACES))
    return b"".join(out)


def random_bytes(rnd, n, alphabet=None):
    if alphabet is None:
        return bytes(rnd.randrange(256) for _ in range(n))
    return b"".join(rnd.choice(alphabet) for _ in range(n))


def mutate(rnd, s):
    """small byte/token level mutation of an input"""
    if not s:
        return rnd.choice(TOKENS)
    k = rnd.randrange(7)
    i = rnd.randrange(len(s) + 1)
    if k == 0:
        return s[:i]                                   # truncate
    if k == 1:
        j = min(len(s), i + rnd.randrange(1, 6))
        return s[:i] + s[j:]                           # delete a few bytes
    if k == 2:
        return s[:i] + rnd.choice(TOKENS) + s[i:]      # insert a token
    if k == 3:
        return s[:i] + bytes([rnd.randrange(256)]) + s[i:]   # insert a random byte
    if k == 4:
        return s[:i] + b" " + rnd.choice(TOKENS) + b" " + s[i:]
    if k == 5:
        j = min(len(s), i + rnd.randrange(1, 10))
        return s[:i] + s[i:j] + s[i:j] + s[j:]         # duplicate a slice
    return s[:i] + rnd.choice([b"'", b'"', b"`", b"\\", b"/*", b"\x00", b"\xff", b"(", b")"]) + s[i:]


def random_text_lines(rnd):
    """a text with a random mix of line lengths, empty lines, CR LF, multi-byte characters"""
    pieces = []
    for _ in range(rnd.randrange(0, 9)):
        n = rnd.choice([0, 0, 1, 2, 5, 17, 60])
        line = b"".join(rnd.choice([b"a", b"z", b" ", b"\t", "é".encode(), "日".encode(), b"\xff", b"'"]) for _ in range(n))
        pieces.append(line + rnd.choice([b"\n", b"\n", b"\r\n", b"\n\n"]))
    tail = rnd.choice([b"", b"x", b"tail", b"\r"])
    return b"".join(pieces) + tail


# ---------------------------------------------------------------- parser-level inputs
KIND_ENTRIES = {
    "ddl": ["ParseDDL", "ParseStatement"],
    "dml": ["ParseDML", "ParseStatement"],
    "expr": ["ParseExpr"],
    "query": ["ParseQuery", "ParseStatement"],
    "statement": ["ParseStatement"],
}
LIST_ENTRY = {"ddl": "ParseDDLs", "dml": "ParseDMLs", "query": "ParseStatements", "statement": "ParseStatements"}
TYPES = [b"INT64", b"STRING(MAX)", b"ARRAY<INT64>", b"STRUCT<a INT64, b ARRAY<STRING(10)>>", b"ARRAY<STRUCT<x BYTES(MAX)>>",
         b"STRUCT<>", b"p.q.R", b"ARRAY<ARRAY<FLOAT64>>", b"NUMERIC", b"INTERVAL", b"STRUCT<ARRAY<INT64>>"]


def parser_cases(rnd, n_mut, n_soup, n_lists, valid_only=False):
    """(entry, bytes) cases: every corpus file under every matching entry point (seed independent), plus seeded
    mutations (error recovery, Bad nodes), token soups, ';'-joined lists and type expressions"""
    out = []
    corp = corpus()
    for k, nm, s in corp:
        for e in KIND_ENTRIES[k]:
            out.append((e, s))
    for t in TYPES:
        out.append(("ParseType", t))
    if not valid_only:
        for _ in range(n_mut):
            k, nm, s = rnd.choice(corp)
            for _ in range(rnd.randrange(1, 3)):
                s = mutate(rnd, s)
            out.append((rnd.choice(KIND_ENTRIES[k]), s))
        for _ in range(n_soup):
            out.append((rnd.choice(["ParseExpr", "ParseQuery", "ParseStatement", "ParseType", "ParseDDL", "ParseDML"]),
                        token_soup(rnd, rnd.randrange(1, 14))))
    bykind = {}
    for k, nm, s in corp:
        bykind.setdefault(k, []).append(s)
    for _ in range(n_lists):
        k = rnd.choice(["ddl", "dml", "query", "statement"])
        parts = [rnd.choice(bykind[k]).strip() for _ in range(rnd.randrange(0, 4))]
        s = (b";" + rnd.choice([b"", b" ", b"\n"])).join(parts)
        if rnd.random() < 0.3:
            s += b";"
        if not valid_only and rnd.random() < 0.2:
            s = mutate(rnd, s)
        out.append((LIST_ENTRY[k], s))
    return out


def case_lines(cases):
    return "".join("%s %s\n" % (e, s.hex() if s else "-") for (e, s) in cases)
