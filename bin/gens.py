"""Input generators shared by the checks.  Every random choice comes from the Random passed in."""
import os, random

ROOT = os.path.dirname(os.path.dirname(os.path.abspath(__file__)))


def corpus(kinds=("ddl", "dml", "expr", "query", "statement")):
    """upstream test inputs (frozen copy under corpus/upstream): list of (kind, name, bytes)"""
    out = []
    for k in kinds:
        d = os.path.join(ROOT, "corpus", "upstream", k)
        for f in sorted(os.listdir(d)):
            with open(os.path.join(d, f), "rb") as fh:
                out.append((k, f, fh.read()))
    return out


def regression(pid):
    """minimised past disagreements / regression inputs for a property: corpus/regress/<pid>.txt, one hex per line"""
    out = []
    # the example input of every open known finding of this property: each listed finding is exercised (and printed) in every run
    try:
        import json
        for f in json.load(open(os.path.join(ROOT, "known_findings.json"))).get("findings", []):
            if f.get("property") == pid and f.get("status") == "open" and f.get("example_input"):
                out.append(f["example_input"].encode())
    except (OSError, ValueError):
        pass
    p = os.path.join(ROOT, "corpus", "regress", pid + ".txt")
    if not os.path.exists(p):
        return out
    for line in open(p):
        line = line.split("#")[0].strip()
        if line:
            out.append(b"" if line == "-" else bytes.fromhex(line))
    return out


LEX_ALPHABET = [b"a", b"e", b"x", b"B", b"r", b"_", b"0", b"1", b"9", b".", b"'", b'"', b"`", b"\\",
                b"-", b"/", b"*", b"#", b"\n", b" ", b";", b"<", b">", b"@"]

NEAR_MISS = [b"f(a => 1, 2)", b"f(1, a => 2, 3)", b"SELECT * FROM tvf(a => 1, TABLE t)", b"@`p`", b"SELECT @`a b`", b"x = @`my param` AND y = 1",
             b"SELECT 1 FROM t WHERE a = @`p` + 1", b"CAST(x AS `INT64`)", b"ARRAY_FILTER(arr => [1], x -> x > 1)", b"SELECT SNIPPET(col, 'q', max_snippets => 2, 10) FROM t",
             b"~-1", b"- -1", b"+ -2.5", b"1 + ~ -0x10", b"NOT NOT a", b"- - - a", b"a . b", b"a.`b`.c[0]", b"(SELECT 1 AS x.y)", b"[(SELECT t.* FROM t AS a.b)]",
             b"CASE WHEN a THEN (SELECT 1 AS x.y) END", b"1 <> 2", b"a <> b AND c != d", b"SELECT * FROM t WHERE a <> 1"]

TOKENS = [b"SELECT", b"FROM", b"WHERE", b"AS", b"a", b"b", b"t", b"1", b"2.5", b"'s'", b'"d"', b"`q`", b"(", b")",
          b",", b";", b"+", b"-", b"*", b"/", b"=", b"<", b">", b"<=", b">>", b"<<", b"||", b"|", b"&", b"^", b"~",
          b".", b"[", b"]", b"{", b"}", b"@p", b"@", b"NOT", b"AND", b"OR", b"IN", b"IS", b"NULL", b"BETWEEN",
          b"LIKE", b"CASE", b"WHEN", b"THEN", b"ELSE", b"END", b"ARRAY", b"STRUCT", b"CAST", b"INT64", b"STRING",
          b"UNNEST", b"JOIN", b"ON", b"UNION", b"ALL", b"DISTINCT", b"ORDER", b"BY", b"LIMIT", b"CREATE", b"TABLE",
          b"INSERT", b"INTO", b"VALUES", b"UPDATE", b"SET", b"DELETE", b"b'x'", b"r'y'", b"0x1F", b"1e3", b".5",
          b"/*c*/", b"--c\n", b"#c\n", b"'''t'''", b"TRUE", b"FALSE", b"x.y", b"IF", b"EXISTS", b"WITH", b"->", b"=>",
          b"!=", b"<>", b"|>", b"NEW", b"INTERVAL", b"DATE", b"HASH", b"TABLESAMPLE", b"DEFAULT", b"PRIMARY", b"KEY"]

SPACES = [b" ", b" ", b" ", b"\n", b"\t", b"  ", b"\r\n", b"", b""]


def token_soup(rnd, n):
    out = []
    for _ in range(n):
        out.append(rnd.choice(TOKENS))
        out.append(rnd.choice(SPACES))
    return b"".join(out)


def random_bytes(rnd, n, alphabet=None):
    if alphabet is None:
        return bytes(rnd.randrange(256) for _ in range(n))
    return b"".join(rnd.choice(alphabet) for _ in range(n))


def mutate(rnd, s):
    """small byte/token level mutation of an input"""
    if not s:
        return rnd.choice(TOKENS)
    k = rnd.randrange(7)
    i = rnd.randrange(len(s) + 1)
    if k == 0:
        return s[:i]                                   # truncate
    if k == 1:
        j = min(len(s), i + rnd.randrange(1, 6))
        return s[:i] + s[j:]                           # delete a few bytes
    if k == 2:
        return s[:i] + rnd.choice(TOKENS) + s[i:]      # insert a token
    if k == 3:
        return s[:i] + bytes([rnd.randrange(256)]) + s[i:]   # insert a random byte
    if k == 4:
        return s[:i] + b" " + rnd.choice(TOKENS) + b" " + s[i:]
    if k == 5:
        j = min(len(s), i + rnd.randrange(1, 10))
        return s[:i] + s[i:j] + s[i:j] + s[j:]         # duplicate a slice
    return s[:i] + rnd.choice([b"'", b'"', b"`", b"\\", b"/*", b"\x00", b"\xff", b"(", b")"]) + s[i:]


def random_text_lines(rnd):
    """a text with a random mix of line lengths, empty lines, CR LF, multi-byte characters"""
    pieces = []
    for _ in range(rnd.randrange(0, 9)):
        n = rnd.choice([0, 0, 1, 2, 5, 17, 60])
        line = b"".join(rnd.choice([b"a", b"z", b" ", b"\t", "é".encode(), "日".encode(), b"\xff", b"'"]) for _ in range(n))
        pieces.append(line + rnd.choice([b"\n", b"\n", b"\r\n", b"\n\n"]))
    tail = rnd.choice([b"", b"x", b"tail", b"\r"])
    return b"".join(pieces) + tail


# ---------------------------------------------------------------- parser-level inputs
KIND_ENTRIES = {
    "ddl": ["ParseDDL", "ParseStatement"],
    "dml": ["ParseDML", "ParseStatement"],
    "expr": ["ParseExpr"],
    "query": ["ParseQuery", "ParseStatement"],
    "statement": ["ParseStatement"],
}
LIST_ENTRY = {"ddl": "ParseDDLs", "dml": "ParseDMLs", "query": "ParseStatements", "statement": "ParseStatements"}
TYPES = [b"INT64", b"STRING(MAX)", b"ARRAY<INT64>", b"STRUCT<a INT64, b ARRAY<STRING(10)>>", b"ARRAY<STRUCT<x BYTES(MAX)>>",
         b"STRUCT<>", b"p.q.R", b"ARRAY<ARRAY<FLOAT64>>", b"NUMERIC", b"INTERVAL", b"STRUCT<ARRAY<INT64>>"]


def parser_cases(rnd, n_mut, n_soup, n_lists, valid_only=False):
    """(entry, bytes) cases: every corpus file under every matching entry point (seed independent), plus seeded
    mutations (error recovery, Bad nodes), token soups, ';'-joined lists and type expressions"""
    out = []
    corp = corpus()
    if valid_only:
        corp = [(k, nm, s) for (k, nm, s) in corp if not nm.startswith("!")]      # upstream marks its invalid inputs with '!'
    for k, nm, s in corp:
        for e in KIND_ENTRIES[k]:
            out.append((e, s))
    for t in TYPES:
        if valid_only and (b"(" in t or t == b"INTERVAL"):
            continue                                                             # sized / DDL-only types are not ParseType sentences
        out.append(("ParseType", t))
    if not valid_only:
        for _ in range(n_mut):
            k, nm, s = rnd.choice(corp)
            for _ in range(rnd.randrange(1, 3)):
                s = mutate(rnd, s)
            out.append((rnd.choice(KIND_ENTRIES[k]), s))
        for _ in range(n_soup):
            out.append((rnd.choice(["ParseExpr", "ParseQuery", "ParseStatement", "ParseType", "ParseDDL", "ParseDML"]),
                        token_soup(rnd, rnd.randrange(1, 14))))
    bykind = {}
    for k, nm, s in corp:
        bykind.setdefault(k, []).append(s)
    for _ in range(n_lists):
        k = rnd.choice(["ddl", "dml", "query", "statement"])
        parts = [rnd.choice(bykind[k]).strip() for _ in range(rnd.randrange(0, 4))]
        s = (b";" + rnd.choice([b"", b" ", b"\n"])).join(parts)
        if rnd.random() < 0.3:
            s += b";"
        if not valid_only and rnd.random() < 0.2:
            s = mutate(rnd, s)
        out.append((LIST_ENTRY[k], s))
    return out


def case_lines(cases):
    return "".join("%s %s\n" % (e, s.hex() if s else "-") for (e, s) in cases)


# ---------------------------------------------------------------- reference-grammar sentences (G), written from the documentation
class G:
    """A small generator of sentences of the Spanner GoogleSQL grammar: expressions with every operator level, literals in every
    quote form, identifiers that need quoting, queries (joins, set operators, WITH, ORDER/LIMIT), DML and common DDL."""

    def __init__(self, rnd, keywords=()):
        self.r = rnd
        self.keywords = list(keywords)

    def pick(self, xs):
        return self.r.choice(xs)

    def ident(self):
        if self.keywords and self.r.random() < 0.08:
            k = self.pick(self.keywords)          # every reserved keyword is a legal name once back-quoted
            return "`%s`" % self.pick([k, k.lower(), k.capitalize()])
        return self.pick(["a", "b", "c", "t", "x1", "_y", "Singers", "`select`", "`a b`", "`IF`", "col", "`日本`", "Albums", "v2", "`x-1`"])

    def path(self):
        return ".".join(self.ident() for _ in range(self.r.randrange(1, 4)))

    def lit(self):
        return self.pick(["1", "0", "42", "0x1F", "1.5", "0.5", "1.", "1e3", "2.5E-3", "'s'", '"d"', "'''t\nu'''", "r'a\\b'", "b'x\\x00'", "rb'y'",
                          "'it''s'".replace("''", "\\'"), '"q\\"q"', "'\\u00e9'", "'a;b'", "'--c'", "'/*c*/'", "TRUE", "FALSE", "NULL", "@p", "@q1",
                          "DATE '2020-01-01'", "TIMESTAMP '2020-01-01 00:00:00'", "NUMERIC '1.5'", "JSON '{}'", "[1, 2]", "ARRAY<INT64>[1]", "ARRAY[]",
                          "(1, 2)", "STRUCT(1 AS a, 2)", "STRUCT<a INT64>(1)", "b\"\"\"z\"\"\"", "'\\n\\t'", "`q`.`r`", "INTERVAL 1 DAY"][:38])

    def typ(self, d=0):
        k = self.r.randrange(6 if d < 2 else 3)
        if k < 3:
            return self.pick(["INT64", "STRING", "BOOL", "FLOAT64", "BYTES", "DATE", "TIMESTAMP", "NUMERIC", "JSON", "p.Q", "int64", "String",
                              "`INT64`", "`bool`", "`Date`", "`p`.`Q`", "FLOAT32", "TOKENLIST", "`my type`"])
        if k == 3:
            return "ARRAY<%s>" % self.typ(d + 1)
        if k == 4:
            return "STRUCT<%s>" % ", ".join((self.ident() + " " if self.r.random() < 0.7 else "") + self.typ(d + 1) for _ in range(self.r.randrange(0, 3)))
        return self.pick(["ARRAY<STRUCT<a ARRAY<INT64>>>", "STRUCT<>", "ARRAY<ARRAY<INT64>>"])

    def atom(self, d):
        k = self.r.randrange(14 if d < 3 else 4)
        if k < 2:
            return self.lit()
        if k < 4:
            return self.path()
        if k == 4:
            return "(%s)" % self.expr(d + 1)
        if k == 5:
            if self.r.random() < 0.2:
                return "IF(%s, %s, %s)" % (self.expr(d + 1), self.expr(d + 1), self.expr(d + 1))
            return "%s(%s)" % (self.pick(["f", "COUNT", "safe.g", "ARRAY_AGG", "COALESCE"]), ", ".join(self.expr(d + 1) for _ in range(self.r.randrange(0, 3))))
        if k == 6:
            return "CASE %sWHEN %s THEN %s %sEND" % (self.pick(["", self.expr(d + 1) + " "]), self.expr(d + 1), self.expr(d + 1), self.pick(["", "ELSE %s " % self.expr(d + 1)]))
        if k == 7:
            return "%sCAST(%s AS %s)" % (self.pick(["", "SAFE_"]), self.expr(d + 1), self.typ())
        if k == 8:
            return "%s[%s(%s)]" % (self.postfix_base(d + 1), self.pick(["OFFSET", "ORDINAL", "SAFE_OFFSET"]), self.expr(d + 1))
        if k == 9:
            return "(%s)" % self.query(d + 1)
        if k == 10:
            return self.pick(["EXISTS(%s)", "ARRAY(%s)"]) % self.query(d + 1)
        if k == 11:
            return "EXTRACT(%s FROM %s)" % (self.pick(["YEAR", "DAY", "DATE"]), self.expr(d + 1))
        if k == 12:
            return self.special_atom(d)
        return "%s.%s" % (self.postfix_base(d + 1), self.ident())

    def special_atom(self, d):
        """call-like and constructor forms"""
        e = lambda: self.expr(d + 2)
        k = self.r.randrange(16)
        if k == 0:
            return "COUNT(*)"
        if k == 1:
            return "f(%s%s => %s%s)" % (self.pick(["", e() + ", "]), self.pick(["a", "enhance_query"]), e(), self.pick(["", ", b => 2"]))
        if k == 2:
            return "ARRAY_FILTER(%s, %s -> %s)" % (self.pick(["[1, 2]", "arr"]), self.pick(["e", "(e)", "(e, i)"]), e())
        if k == 3:
            return "%s(%s, INTERVAL %s %s)" % (self.pick(["TIMESTAMP_ADD", "DATE_SUB"]), e(), self.pick(["1", "@n", "120"]), self.pick(["DAY", "HOUR", "MONTH"]))
        if k == 4:
            return "GET_NEXT_SEQUENCE_VALUE(SEQUENCE %s)" % self.path()
        if k == 5:
            return "ARRAY_AGG(%s%s%s%s)" % (self.pick(["", "DISTINCT "]), e(), self.pick(["", " IGNORE NULLS", " RESPECT NULLS"]), self.pick(["", " HAVING MAX " + e(), " HAVING MIN " + e()]))
        if k == 6:
            return "REPLACE_FIELDS(%s, %s AS %s%s)" % (e(), e(), self.pick(["title", "details.chapters"]), self.pick(["", ", 11 AS x.y"]))
        if k == 7:
            return "EXTRACT(%s FROM %s%s)" % (self.pick(["HOUR", "DAY", "DATE", "ISOWEEK"]), e(), self.pick(["", " AT TIME ZONE 'UTC'", " AT TIME ZONE " + e()]))
        if k == 8:
            return "WITH(%s%s)" % ("".join("%s AS %s, " % (self.pick(["a", "b", "v"]), e()) for _ in range(self.r.randrange(0, 3))), e())
        if k == 9:
            return "NEW %s(%s)" % (self.pick(["Book", "a.b.Chart"]), ", ".join(e() + self.pick(["", " AS title", " AS (ext.field)"])[:0] + self.pick(["", " AS title"]) for _ in range(self.r.randrange(0, 3))))
        if k == 10:
            return "NEW %s %s" % (self.pick(["Universe", "x.Y"]), self.braced(d + 1))
        if k == 11:
            return "%s(%s).%s" % (self.pick(["f", "g.h"]), e(), self.ident())
        if k == 12:
            return "IF(%s, %s, %s)" % (e(), e(), e())
        if k == 13:
            return "CAST(%s AS %s)" % (e(), self.pick(["INT64", "FLOAT64", "STRUCT<x INT64, y ARRAY<STRING>>"]))
        if k == 14:
            return "%s(DISTINCT %s)" % (self.pick(["COUNT", "SUM"]), e())
        return "(%s, %s)" % (e(), e())

    def braced(self, d):
        if d > 4 or self.r.random() < 0.2:
            return "{}"
        fs = []
        for _ in range(self.r.randrange(1, 4)):
            k = self.r.randrange(3)
            if k == 0:
                fs.append("%s: %s" % (self.pick(["name", "a", "(ext.f)"])[:4].strip("("), self.expr(d + 2)))
            elif k == 1:
                fs.append("%s %s" % (self.pick(["inr", "b"]), self.braced(d + 1)))
            else:
                fs.append("%s: %s" % (self.pick(["c", "list"]), self.braced(d + 1)))
        return "{%s}" % self.pick([", ", " ", ", "]).join(fs)

    def postfix_base(self, d):
        """what may stand in front of .field / [index]: a path, a call, a parenthesised expression, another postfix"""
        k = self.r.randrange(4)
        if k == 0:
            return self.path()
        if k == 1:
            return "(%s)" % self.expr(d + 1)
        if k == 2:
            return "f(%s)" % self.expr(d + 1)
        return "%s[OFFSET(0)]" % self.path()

    # precedence levels of the GoogleSQL operator table (smaller binds tighter)
    LEVELS = {3: ["*", "/", "||"], 4: ["+", "-"], 5: ["<<", ">>"], 6: ["&"], 7: ["^"], 8: ["|"], 11: ["AND"], 12: ["OR"]}
    CMP = ["=", "!=", "<>", "<", "<=", ">", ">=", "LIKE", "NOT LIKE"]

    def expr(self, d=0, level=12):
        """an expression whose outermost operator binds at least as tightly as [level]; operands are generated at the level the
        table requires, with an occasional redundant parenthesis"""
        if d > 5 or level <= 1:
            return self.atom(d)
        if self.r.random() < 0.12:
            return "(%s)" % self.expr(d + 1, 12)
        L = self.r.choice([l for l in (0, 0, 2, 3, 4, 5, 6, 7, 8, 9, 9, 10, 11, 12) if l <= level])
        if L == 0:
            return self.atom(d)
        if L in self.LEVELS:
            return "%s %s %s" % (self.expr(d + 1, L), self.pick(self.LEVELS[L]), self.expr(d + 1, L - 1 if L != 11 else 10))
        if L == 2:
            op = self.pick(["-", "+", "~"])
            x = self.expr(d + 1, 2)
            return op + (" " if x[:1] in "-+" or self.r.random() < 0.3 else "") + x
        if L == 10:
            return "NOT " + self.expr(d + 1, 10)
        # L == 9: the non-associative comparison family, operands one level tighter
        k = self.r.randrange(5)
        x = self.expr(d + 1, 8)
        if k < 2:
            return "%s %s %s" % (x, self.pick(self.CMP), self.expr(d + 1, 8))
        if k == 2:
            return "%s %sIN %s" % (x, self.pick(["", "NOT "]), self.pick(["(1, 2)", "UNNEST([1])", "(SELECT 1)", "(%s)" % self.expr(d + 1, 12), "(%s, %s)" % (self.expr(d + 1), self.expr(d + 1))]))
        if k == 3:
            return "%s %sBETWEEN %s AND %s" % (x, self.pick(["", "NOT "]), self.expr(d + 1, 8), self.expr(d + 1, 8))
        return "%s IS %s%s" % (x, self.pick(["", "NOT "]), self.pick(["NULL", "TRUE", "FALSE"]))

    def select_item(self, d):
        k = self.r.randrange(6)
        if k == 0:
            return self.pick(["*", "t.*", "* EXCEPT (a, b)", "* REPLACE (1 AS a)"])
        e = self.expr(d + 2)
        return e + self.pick(["", "", " AS " + self.ident(), " " + self.pick(["x", "y", "`z z`"])])

    def table(self, d):
        k = self.r.randrange(7 if d < 2 else 3)
        if k < 3:
            return self.path() + self.pick(["", " AS " + self.ident(), " " + self.pick(["u", "v"]), "@{FORCE_INDEX=i}", " TABLESAMPLE BERNOULLI (1 PERCENT)",
                                       " TABLESAMPLE RESERVOIR (CAST(1 AS INT64) ROWS)", " TABLESAMPLE BERNOULLI (CAST(0.1 AS FLOAT64) PERCENT)", " TABLESAMPLE RESERVOIR (@n ROWS)"])
        if k == 3:
            return "(%s) %s" % (self.select(d + 1), self.pick(["", "AS s"]))
        if k == 4:
            if self.r.random() < 0.3:
                return self.pick(["ML.PREDICT(MODEL m, TABLE t)", "ML.PREDICT(MODEL m, (SELECT 1 AS x))", "tvf(1, TABLE a.b)", "tvf(x => 1)", "tvf(TABLE t, n => 2)",
                                  "ML.PREDICT(MODEL m, TABLE t, STRUCT(1 AS k)) TABLESAMPLE BERNOULLI (1 PERCENT)", "tvf()@{k=v}"])
            return "UNNEST(%s)%s" % (self.expr(3), self.pick(["", " AS e", " WITH OFFSET", " AS e WITH OFFSET AS o"]))
        if k == 5:
            op = self.pick(["JOIN", "INNER JOIN", "LEFT JOIN", "LEFT OUTER JOIN", "CROSS JOIN", "FULL JOIN", ",", "RIGHT JOIN", "HASH JOIN"])
            cond = "" if op in ("CROSS JOIN", ",") else self.pick([" ON %s" % self.expr(3), " USING (a)", " USING (a, b)"])
            return "%s %s %s%s" % (self.table(d + 1), op, self.table(3), cond)
        return "(%s JOIN %s ON TRUE)" % (self.table(3), self.table(3))

    def select(self, d):
        s = "SELECT %s%s%s" % (self.pick(["", "", "DISTINCT ", "ALL ", "AS STRUCT ", "AS VALUE ", "AS TypeName ", "DISTINCT AS STRUCT "]),
                               ", ".join(self.select_item(d) for _ in range(self.r.randrange(1, 4))), self.pick(["", "", ","]) if False else "")
        if self.r.random() < 0.8:
            s += " FROM " + self.table(d)
            if self.r.random() < 0.5:
                s += " WHERE " + self.expr(d + 2)
            if self.r.random() < 0.3:
                s += " GROUP BY " + ", ".join(self.expr(3) for _ in range(self.r.randrange(1, 3)))
                if self.r.random() < 0.4:
                    s += " HAVING " + self.expr(3)
        return s

    def query(self, d=0):
        k = self.r.randrange(8 if d < 2 else 4)
        if k == 6 and d > 0:
            k = 0
        if d == 0 and self.r.random() < 0.06:
            q = "FROM %s%s" % (self.table(1), self.pick(["", " |> WHERE a", " |> SELECT x, y", " |> WHERE %s |> SELECT *" % self.expr(3)]))
            if self.r.random() < 0.4:
                q = "@{%s=%s} " % (self.pick(["k", "USE_ADDITIONAL_PARALLELISM"]), self.pick(["1", "TRUE"])) + q
            return q
        if k < 4:
            q = self.select(d)
        elif k == 4:
            q = "%s %s %s" % (self.select(d + 1), self.pick(["UNION ALL", "UNION DISTINCT", "INTERSECT ALL", "EXCEPT DISTINCT"]), self.select(d + 1))
        elif k == 5:
            q = "(%s)" % self.query(d + 1)
        elif k == 6:
            q = "WITH %s AS (%s) %s" % (self.ident(), self.query(d + 1), self.select(d + 1))
        else:
            q = "%s UNION ALL %s UNION ALL %s" % (self.select(d + 1), self.select(d + 1), self.select(d + 1))
        if self.r.random() < 0.3:
            q += " ORDER BY " + ", ".join(self.expr(3) + self.pick(["", "", ' COLLATE "en_US"', " COLLATE @c"]) + self.pick(["", " ASC", " DESC"]) for _ in range(self.r.randrange(1, 3)))
        if self.r.random() < 0.3:
            q += " LIMIT " + self.pick(["1", "@n", "10", "CAST(1 AS INT64)", "CAST(@p AS INT64)"]) + self.pick(["", " OFFSET 2", " OFFSET @o", " OFFSET CAST(1 AS INT64)"])
        if d == 0 and self.r.random() < 0.15:
            q += " FOR UPDATE"
        if d == 0 and self.r.random() < 0.1:
            q += self.pick([" |> WHERE %s" % self.expr(3), " |> SELECT %s" % self.expr(3), " |> WHERE a |> SELECT b"])
        if d == 0 and self.r.random() < 0.1:
            q = "@{%s=%s} " % (self.pick(["k", "FORCE_INDEX", "x.y"]), self.pick(["1", "v", "'s'", "TRUE"])) + q
        return q

    DDL_MORE = [
        "DROP SCHEMA sch1", 
        "CREATE LOCALITY GROUP g", "ALTER LOCALITY GROUP `default` SET OPTIONS (storage = 'ssd', x = '10d')",
        "DROP LOCALITY GROUP g", "CREATE CHANGE STREAM cs FOR ALL", "ALTER PROTO BUNDLE INSERT (a.B)", "ALTER TABLE t SET OPTIONS (x = 1)", "CREATE SEARCH INDEX si ON t (a, b) STORING (c) PARTITION BY d ORDER BY e DESC OPTIONS (sort_order_sharding = true)", "DROP SCHEMA sch1", "CREATE LOCALITY GROUP g",
        "CREATE LOCALITY GROUP g OPTIONS (storage = 'ssd')", "CREATE TABLE t (a INT64, SYNONYM (s)) PRIMARY KEY (a)", "CREATE SCHEMA s",
        "CREATE PLACEMENT `p` OPTIONS (instance_partition = \"x\")",
        "CREATE PROTO BUNDLE (a.b.C, `x.y.Z`)", "ALTER PROTO BUNDLE", "ALTER PROTO BUNDLE INSERT (a.B) UPDATE (c.D) DELETE (e.F)",
        "ALTER PROTO BUNDLE UPDATE (`a.b`)", "ALTER PROTO BUNDLE DELETE (x)", "DROP PROTO BUNDLE",
        "CREATE TABLE t (a INT64, SYNONYM (s)) PRIMARY KEY (a)", "CREATE TABLE t (a INT64 NOT NULL AUTO_INCREMENT PRIMARY KEY)",
        "CREATE TABLE t (a INT64 GENERATED BY DEFAULT AS IDENTITY (BIT_REVERSED_POSITIVE START COUNTER WITH 1000 SKIP RANGE 1, 2) PRIMARY KEY, b INT64 GENERATED BY DEFAULT AS IDENTITY)",
        "CREATE TABLE t (a INT64 GENERATED BY DEFAULT AS IDENTITY (BIT_REVERSED_POSITIVE)) PRIMARY KEY (a)",
        "CREATE TABLE t (a INT64 GENERATED BY DEFAULT AS IDENTITY (SKIP RANGE 1000, 2000 START COUNTER WITH 5)) PRIMARY KEY (a)",
        "CREATE TABLE t (a INT64, CONSTRAINT c FOREIGN KEY (a) REFERENCES u (b) ON DELETE CASCADE NOT ENFORCED, CHECK (a > 0), FOREIGN KEY (a) REFERENCES u (b) ENFORCED) PRIMARY KEY (a)",
        "CREATE SEQUENCE s OPTIONS (sequence_kind = 'bit_reversed_positive')",
        "ALTER SEQUENCE s SKIP RANGE 1, 1234567", "ALTER SEQUENCE s NO SKIP RANGE", "ALTER SEQUENCE s RESTART COUNTER WITH 1000", "ALTER SEQUENCE s SET OPTIONS (x = 1)",
        "CREATE CHANGE STREAM cs", "CREATE CHANGE STREAM cs FOR t",
        "ALTER CHANGE STREAM cs SET FOR t(a), u", "ALTER CHANGE STREAM cs DROP FOR ALL", "ALTER CHANGE STREAM cs SET OPTIONS (retention_period = '1d', v = 'X')", "DROP CHANGE STREAM cs",
        "ALTER TABLE t DROP SYNONYM s", "ALTER TABLE t ADD ROW DELETION POLICY (OLDER_THAN(c, INTERVAL 30 DAY))", "ALTER TABLE t DROP CONSTRAINT c",
        "ALTER TABLE t DROP ROW DELETION POLICY", "ALTER TABLE t REPLACE ROW DELETION POLICY (OLDER_THAN(c, INTERVAL 1 DAY))", "ALTER TABLE t SET INTERLEAVE IN p",
        "ALTER TABLE t SET INTERLEAVE IN PARENT p ON DELETE NO ACTION", "ALTER TABLE t SET OPTIONS (locality_group = 'x')",
        "ALTER TABLE t ALTER COLUMN c SET OPTIONS (allow_commit_timestamp = true)", "ALTER TABLE t ALTER COLUMN c DROP DEFAULT",
        "ALTER TABLE t ALTER COLUMN c ALTER IDENTITY SET NO SKIP RANGE", "ALTER TABLE t ALTER COLUMN c ALTER IDENTITY SET SKIP RANGE 1, 2", "ALTER TABLE t ALTER COLUMN c ALTER IDENTITY RESTART COUNTER WITH 9",
        "ALTER TABLE t ALTER COLUMN c STRING(MAX) NOT NULL DEFAULT ('x')", "ALTER TABLE t ADD COLUMN c INT64 NOT NULL GENERATED BY DEFAULT AS IDENTITY (BIT_REVERSED_POSITIVE)",
        "ALTER TABLE t ADD COLUMN e TIMESTAMP AS (IF(s != \"OPEN\", TIMESTAMP_ADD(u, INTERVAL 120 DAY), NULL)) STORED",
        "ALTER INDEX i DROP STORED COLUMN c", "DROP VECTOR INDEX v", "DROP VECTOR INDEX IF EXISTS v", "DROP SEARCH INDEX IF EXISTS si", "DROP SEARCH INDEX si",
        "ALTER SEARCH INDEX si ADD STORED COLUMN g", "ALTER SEARCH INDEX si DROP STORED COLUMN g",
        "GRANT SELECT ON VIEW v TO ROLE r", "GRANT SELECT ON CHANGE STREAM c1, c2 TO ROLE r", "GRANT EXECUTE ON TABLE FUNCTION f TO ROLE r",
        "GRANT ROLE a, b TO ROLE c, d", "GRANT SELECT(a, b), UPDATE(c), INSERT, DELETE ON TABLE t, u TO ROLE r, s", "REVOKE ROLE a FROM ROLE b",
        "REVOKE SELECT ON VIEW v FROM ROLE r", "REVOKE EXECUTE ON TABLE FUNCTION f FROM ROLE r", "GRANT INSERT(a), UPDATE, DELETE ON TABLE t TO ROLE r",
        "ALTER STATISTICS st SET OPTIONS (allow_gc = false)", "ALTER MODEL m SET OPTIONS (endpoints = ['a', 'b'], default_batch_size = 100)", "ALTER MODEL IF EXISTS m SET OPTIONS (x = 1)",
        "DROP MODEL m", "DROP MODEL IF EXISTS m", "CREATE OR REPLACE MODEL m REMOTE OPTIONS (endpoint = 'e')",
        "DROP PROPERTY GRAPH g", "DROP PROPERTY GRAPH IF EXISTS g",
        "CREATE PROPERTY GRAPH g NODE TABLES (Person NO PROPERTIES)", "CREATE PROPERTY GRAPH g NODE TABLES (p PROPERTIES ARE ALL COLUMNS)",
        "CREATE PROPERTY GRAPH g NODE TABLES (p PROPERTIES ALL COLUMNS EXCEPT (a, b))", "CREATE PROPERTY GRAPH g NODE TABLES (p AS q KEY (id) LABEL l PROPERTIES (a, b AS c) DEFAULT LABEL NO PROPERTIES)",
        "CREATE OR REPLACE PROPERTY GRAPH g NODE TABLES (a, b) EDGE TABLES (e SOURCE KEY (s) REFERENCES a (id) DESTINATION KEY (d) REFERENCES b (id) LABEL x NO PROPERTIES)",
        "CREATE PROPERTY GRAPH IF NOT EXISTS g NODE TABLES (p DEFAULT LABEL PROPERTIES ARE ALL COLUMNS EXCEPT (z)) EDGE TABLES (e KEY (k) SOURCE KEY (s) REFERENCES p DESTINATION KEY (d) REFERENCES p (id) NO PROPERTIES)",
        "CREATE PROPERTY GRAPH g NODE TABLES (p LABEL a LABEL b PROPERTIES (x))",
        "CREATE VECTOR INDEX v ON t (e) WHERE e IS NOT NULL OPTIONS (distance_type = 'COSINE')",
        "CREATE UNIQUE NULL_FILTERED INDEX IF NOT EXISTS i ON t (a DESC, b ASC) STORING (c, d), INTERLEAVE IN p", "ALTER INDEX i ADD STORED COLUMN c",
        "ALTER DATABASE d SET OPTIONS (optimizer_version = 2)", "CREATE ROLE r", "DROP ROLE r", "ANALYZE", "RENAME TABLE a TO b", "ALTER TABLE t RENAME TO u, ADD SYNONYM t",
        "CREATE VIEW v SQL SECURITY INVOKER AS SELECT 1", "CREATE OR REPLACE VIEW a.v SQL SECURITY DEFINER AS SELECT * FROM t", "DROP VIEW v", "DROP INDEX IF EXISTS i", "DROP SEQUENCE s",
    ]

    def dml(self):
        k = self.r.randrange(4)
        if k == 0:
            return "INSERT %s%s (a, b) VALUES (%s, %s)%s" % (self.pick(["", "INTO ", "OR IGNORE INTO ", "OR UPDATE "]), self.path(), self.expr(3), self.pick(["DEFAULT", self.expr(3)]),
                                                         self.pick(["", ", (1, 2)", " THEN RETURN *", " THEN RETURN WITH ACTION AS act *", " THEN RETURN WITH ACTION a, b AS c"]))
        if k == 1:
            return "INSERT INTO %s (a) %s" % (self.path(), self.query(1))
        if k == 2:
            return "DELETE %s%s WHERE %s" % (self.pick(["", "FROM "]), self.path(), self.expr(2))
        return "UPDATE %s%s SET a = %s, b.c = DEFAULT WHERE %s%s" % (self.path(), self.pick(["", " AS u", " u"]), self.expr(3), self.expr(2), self.pick(["", " THEN RETURN a, b", " THEN RETURN WITH ACTION *"]))

    def ddl(self):
        k = self.r.randrange(8)
        if k == 0:
            cols = ", ".join("%s %s%s" % (self.ident(), self.pick(["INT64", "STRING(MAX)", "ARRAY<STRING(10)>", "BOOL", "TIMESTAMP"]),
                                          self.pick(["", " NOT NULL", " DEFAULT (1)", " OPTIONS (allow_commit_timestamp = true)", " AS (a + 1) STORED", " PRIMARY KEY", " HIDDEN",
                                                     " NOT NULL PRIMARY KEY", " HIDDEN PRIMARY KEY", " NOT NULL HIDDEN"])) for _ in range(self.r.randrange(1, 4)))
            return "CREATE TABLE %s%s (%s)%s%s" % (self.pick(["", "IF NOT EXISTS "]), self.path(), cols, self.pick([" PRIMARY KEY (a)", " PRIMARY KEY (a, b DESC)", "", " PRIMARY KEY ()"]),
                                                               self.pick(["", ", INTERLEAVE IN PARENT p ON DELETE CASCADE", ", ROW DELETION POLICY (OLDER_THAN(ts, INTERVAL 30 DAY))"]))
        if k == 1:
            return "CREATE %s%sINDEX %s ON %s (a%s)%s" % (self.pick(["", "UNIQUE "]), self.pick(["", "NULL_FILTERED "]), self.ident(), self.path(), self.pick(["", " DESC, b"]),
                                                       self.pick(["", " STORING (c)", ", INTERLEAVE IN p"]))
        if k == 2:
            return "ALTER TABLE %s %s" % (self.path(), self.pick(["ADD COLUMN c INT64", "DROP COLUMN c", "ADD COLUMN IF NOT EXISTS d STRING(MAX) NOT NULL",
                                                                  "ALTER COLUMN c STRING(10)", "ADD CONSTRAINT fk FOREIGN KEY (a) REFERENCES t (b)", "SET ON DELETE NO ACTION",
                                                                  "ADD CHECK (a > 0)", "ALTER COLUMN c SET DEFAULT (1)", "RENAME TO u", "ADD SYNONYM s"]))
        if k == 3:
            return self.pick(["DROP TABLE %s", "DROP TABLE IF EXISTS %s", "DROP INDEX %s", "DROP VIEW %s", "DROP SEQUENCE IF EXISTS %s", "DROP ROLE %s"]) % self.ident()
        if k == 4:
            return "CREATE %sVIEW %s SQL SECURITY %s AS %s" % (self.pick(["", "OR REPLACE "]), self.path(), self.pick(["INVOKER", "DEFINER"]), self.query(1))
        if k == 5:
            return self.pick(["CREATE SEQUENCE s OPTIONS (sequence_kind = 'bit_reversed_positive')", "CREATE CHANGE STREAM cs FOR t(a, b), u",
                              "CREATE ROLE r", "GRANT SELECT, INSERT ON TABLE t TO ROLE r", "REVOKE SELECT(a) ON TABLE t FROM ROLE r",
                              "ALTER DATABASE d SET OPTIONS (version_retention_period = '7d')", "CREATE DATABASE d", "ANALYZE",
                              "CREATE SEARCH INDEX si ON t (tok)", "CREATE VECTOR INDEX vi ON t (emb) OPTIONS (distance_type = 'COSINE')",
                              "ALTER INDEX i ADD STORED COLUMN c", "CREATE SCHEMA s", "ALTER SEQUENCE s SET OPTIONS (skip_range_min = 1)",
                              "CREATE MODEL m INPUT (a INT64) OUTPUT (b FLOAT64) REMOTE OPTIONS (endpoint = 'e')", "RENAME TABLE a TO b, c TO d"])
        if k == 6:
            if self.r.random() < 0.7:
                return self.pick(self.DDL_MORE)
            return "CALL %s(%s)" % (self.path(), ", ".join(self.expr(3) for _ in range(self.r.randrange(0, 3))))
        return "CREATE PROPERTY GRAPH g NODE TABLES (n KEY (id) LABEL l PROPERTIES (a, b AS c)) EDGE TABLES (e SOURCE KEY (s) REFERENCES n (id) DESTINATION KEY (d) REFERENCES n (id))"


def gen_keywords():
    import re
    p = os.path.join(ROOT, "coq", "theories", "Gen", "Keywords.v")
    if not os.path.exists(p):
        return []
    return re.findall(r"\(\* ([A-Z_]+) \*\)", open(p).read())


COLUMN_OPTS = ["", " NOT NULL", " DEFAULT (1)", " OPTIONS (allow_commit_timestamp = true)", " AS (a + 1) STORED", " PRIMARY KEY", " HIDDEN",
               " NOT NULL PRIMARY KEY", " HIDDEN PRIMARY KEY", " NOT NULL HIDDEN", " NOT NULL DEFAULT (2) OPTIONS (x = 1)"]
KEY_CLAUSES = [" PRIMARY KEY (a)", " PRIMARY KEY (a, b DESC)", "", " PRIMARY KEY ()"]
TABLE_TAILS = ["", ", INTERLEAVE IN PARENT p ON DELETE CASCADE", ", ROW DELETION POLICY (OLDER_THAN(ts, INTERVAL 30 DAY))"]


def query_systematic():
    """seed-independent products of the optional parts of the query grammar (join type x join method x hint x condition; set operator x
    quantifier; aggregate-call modifiers; INSERT variants; hint x statement kind), as the DDL options above"""
    out = []
    jtypes = ["", "INNER ", "LEFT ", "LEFT OUTER ", "RIGHT ", "RIGHT OUTER ", "FULL ", "FULL OUTER "]
    jmethods = ["", "HASH "]
    jhints = ["", "@{FORCE_JOIN_ORDER=TRUE} ", "@{JOIN_METHOD=HASH_JOIN} "]
    conds = [" ON A.x = B.x", " USING (x)", " USING (x, y)"]
    for t in jtypes:
        for m in jmethods:
            for h in jhints:
                for c in conds:
                    out.append("SELECT * FROM A %s%sJOIN %sB%s" % (t, m, h, c))
    for h in jhints:
        out.append("SELECT * FROM A CROSS JOIN %sB" % h)
        out.append("SELECT * FROM A, B CROSS JOIN %sC" % h)
        out.append("SELECT * FROM (A JOIN %sB ON TRUE) JOIN C USING (x)" % h)
        out.append("SELECT * FROM A LEFT JOIN %sUNNEST(A.arr) AS e" % h)
        out.append("SELECT * FROM A JOIN %sUNNEST([1, 2]) AS e WITH OFFSET ON e = A.x" % h)
    for op in ("UNION", "INTERSECT", "EXCEPT"):
        for q in ("ALL", "DISTINCT"):
            out.append("SELECT 1 %s %s SELECT 2" % (op, q))
            out.append("(SELECT 1) %s %s (SELECT 2 %s %s SELECT 3) ORDER BY 1 LIMIT 1" % (op, q, op, q))
            out.append("SELECT * FROM (SELECT 1 %s %s SELECT 2) AS s" % (op, q))
    for d in ("", "DISTINCT "):
        for nh in ("", " IGNORE NULLS", " RESPECT NULLS"):
            for hv in ("", " HAVING MAX y", " HAVING MIN y"):
                # ORDER BY / LIMIT inside an aggregate call are GoogleSQL but not implemented by memefish (CallExpr has no field for them)
                out.append("SELECT ARRAY_AGG(%sx%s%s) FROM t" % (d, nh, hv))
                out.append("SELECT STRING_AGG(%sx, ','%s%s), f(%sy%s) FROM t" % (d, nh, hv, d, nh))
    for ioru in ("", "OR UPDATE ", "OR IGNORE "):
        for into in ("", "INTO "):
            for src in ("VALUES (1, 'a')", "VALUES (1, DEFAULT), (2, 'b')", "SELECT 1, 'a'", "(SELECT 1, 'a')"):
                for ret in ("", " THEN RETURN *", " THEN RETURN WITH ACTION AS act a, b", " THEN RETURN a + 1 AS c"):
                    out.append("INSERT %s%st (a, b) %s%s" % (ioru, into, src, ret))
    for hint in ("@{FORCE_JOIN_ORDER=TRUE} ", "@{a=1, b.c=TRUE} "):
        for st in ("SELECT 1", "WITH w AS (SELECT 1) SELECT * FROM w", "(SELECT 1)", "FROM t |> SELECT *", "FROM t", "INSERT INTO t (a) VALUES (1)",
                   "UPDATE t SET a = 1 WHERE TRUE", "DELETE FROM t WHERE TRUE"):
            out.append(hint + st)
    for quant in ("", "ALL ", "DISTINCT "):
        for as_ in ("", "AS STRUCT ", "AS VALUE ", "AS pkg.Message "):
            out.append("SELECT %s%sa FROM t" % (quant, as_))
            out.append("SELECT ARRAY(SELECT %s%sx FROM UNNEST(xs) AS x)" % (quant, as_))
            out.append("FROM t |> SELECT %s%sa" % (quant, as_))
    for item in ("t", "a.b.c", "(SELECT 1 AS x)", "UNNEST([1, 2])", "f(1)", "(a JOIN b ON TRUE)"):
        for hint in ("", "@{FORCE_INDEX=i} "):
            for alias in ("", " AS s", " s"):
                for off in ("", " WITH OFFSET", " WITH OFFSET AS o"):
                    for samp in ("", " TABLESAMPLE BERNOULLI (10 PERCENT)", " TABLESAMPLE RESERVOIR (5 ROWS)"):
                        if off and not item.startswith("UNNEST"):
                            continue
                        if hint and not (item in ("t", "a.b.c") or item.startswith(("UNNEST", "f("))):
                            continue
                        if alias and item.startswith(("f(", "(a JOIN")):
                            continue          # aliases on table-valued function calls and parenthesised joins: not implemented by memefish
                        out.append("SELECT * FROM %s %s%s%s%s" % (item, hint, alias.strip() and alias or "", off, samp))
                        out.append("SELECT * FROM %s %s%s%s%s JOIN u ON TRUE" % (item, hint, alias.strip() and alias or "", off, samp))
    for o in ("", " ASC", " DESC"):
        for c in ("", " COLLATE \"und:ci\""):
            out.append("SELECT a FROM t ORDER BY a%s%s, b%s" % (c, o, o))
    for lim in (" LIMIT 1", " LIMIT @n", " LIMIT 1 OFFSET 2", " LIMIT @n OFFSET @m", " LIMIT CAST(1 AS INT64) OFFSET CAST(@m AS INT64)"):
        out.append("SELECT a FROM t" + lim)
        out.append("(SELECT a FROM t%s)%s" % (lim, lim))
    res = []
    for s_ in out:
        dml = s_.startswith(("INSERT", "UPDATE", "DELETE")) or (s_.startswith("@{") and any(k in s_ for k in ("INSERT", "UPDATE", "DELETE")))
        if dml:
            res.append(("ParseStatement", s_.encode()))
            res.append(("ParseDML", s_.encode()))
        else:
            res.append(("ParseQuery", s_.encode()))
            res.append(("ParseStatement", s_.lower().encode() if '"' not in s_ and "'" not in s_ else s_.encode()))
    return res


SPECIAL_CPS = [0, 1, 7, 8, 9, 10, 11, 12, 13, 27, 31, 34, 39, 92, 96, 127, 128, 133, 159, 160, 173, 255, 256, 0x300, 0x5d0, 0x2028, 0x2029, 0x200b, 0x2060,
               0xd7ff, 0xe000, 0xfeff, 0xfffd, 0xffff, 0x10000, 0x1f600, 0xe0001, 0x10ffff]


def literal_systematic():
    """every 'difficult' code point inside a string literal, a bytes literal, a back-quoted identifier and a quoted alias, spelled raw and
    as an escape; invalid UTF-8 bytes; every pseudo keyword as a back-quoted identifier in the positions where the bare word is special"""
    out = []
    for cp in SPECIAL_CPS:
        ch = chr(cp).encode("utf-8", "surrogatepass")
        esc = (b"\\x%02x" % cp) if cp < 0x80 else ((b"\\u%04x" % cp) if cp <= 0xffff else (b"\\U%08x" % cp))
        raw_ok = cp not in (10, 13, 34, 39, 92, 96)
        forms = [esc] + ([ch] if raw_ok else [])
        for f in forms:
            out.append(("ParseExpr", b'"a' + f + b'b"'))
            out.append(("ParseExpr", b"'" + f + b"'"))
            out.append(("ParseQuery", b"SELECT 1 AS `c" + f + b"d` FROM `t" + f + b"`"))
            out.append(("ParseExpr", b"`x" + f + b"`.y"))
            if cp < 256:
                out.append(("ParseExpr", b"b'" + (b"\\x%02x" % cp) + b"'"))
        out.append(("ParseExpr", b'"""' + (ch if cp not in (34, 92) else esc) + b'"""'))
    for bad in (b"\xff", b"\xc3", b"\xe2\x82", b"\xed\xa0\x80", b"\xf4\x90\x80\x80", b"\xc0\xaf"):
        out.append(("ParseExpr", b'"' + bad + b'"'))
        out.append(("ParseExpr", b"b'" + bad + b"'"))
        out.append(("ParseQuery", b"SELECT `" + bad + b"` FROM t"))
    return out


PSEUDO_TEMPLATES = [("ParseExpr", "`%s`(x)"), ("ParseQuery", "SELECT AS `%s` 1"), ("ParseExpr", "f(`%s`)"), ("ParseQuery", "SELECT `%s` FROM t"),
                    ("ParseQuery", "SELECT 1 AS `%s`"), ("ParseExpr", "CAST(x AS `%s`)"), ("ParseQuery", "SELECT * FROM `%s`"), ("ParseQuery", "SELECT * FROM t AS `%s`"),
                    ("ParseQuery", "SELECT * FROM t `%s`"), ("ParseExpr", "`%s`.x"), ("ParseExpr", "a.`%s`"), ("ParseExpr", "x[`%s`(1)]"),
                    ("ParseDDL", "CREATE TABLE `%s` (a INT64) PRIMARY KEY (a)"), ("ParseDDL", "CREATE TABLE t (`%s` INT64) PRIMARY KEY (`%s`)"),
                    ("ParseDML", "INSERT INTO `%s` (a) VALUES (1)"), ("ParseDML", "UPDATE t SET `%s` = 1 WHERE TRUE"), ("ParseQuery", "SELECT * FROM a JOIN b USING (`%s`)"),
                    ("ParseQuery", "SELECT * FROM t ORDER BY `%s`"), ("ParseExpr", "`%s` + 1"), ("ParseQuery", "SELECT * FROM t TABLESAMPLE `%s` (1 PERCENT)")]


def pseudo_keywords():
    """identifiers the parser compares with IsKeywordLike("...") (taken from parser.go's text: they are inputs, not expectations)"""
    import re
    try:
        src = open("/repo/parser.go").read()
    except OSError:
        return []
    return sorted(set(re.findall(r'IsKeywordLike\("([A-Z_]+)"\)', src)))


def pseudo_keyword_cases():
    out = []
    for k in pseudo_keywords():
        for (e, t) in PSEUDO_TEMPLATES:
            out.append((e, t.replace("%s", k).encode()))
            out.append((e, t.replace("%s", k.lower()).encode()))
    return out


NUMERIC_POSTFIX = [b"1 .x", b"1 .x.y", b"(1).x", b"1.5 .x", b"0x1F .x", b"1 [0]", b"1e5 .x", b"-1 .x", b"a + 1 .x", b"f(1 .x)", b".5 .x"]


def clause_permutations():
    """optional clauses in every order (only the documented order is a sentence of the grammar; the others are probes: if a change makes
    them acceptable, positions and round trip must still be right)"""
    import itertools
    out = []
    tails = [", INTERLEAVE IN PARENT p ON DELETE CASCADE", ", ROW DELETION POLICY (OLDER_THAN(ts, INTERVAL 30 DAY))", ", OPTIONS (o = 1)"]
    for k in (2, 3):
        for perm in itertools.permutations(tails, k):
            out.append(("ParseDDL", ("CREATE TABLE t (a INT64, ts TIMESTAMP) PRIMARY KEY (a)" + "".join(perm)).encode()))
    colopts = [" NOT NULL", " DEFAULT (1)", " HIDDEN", " PRIMARY KEY", " OPTIONS (o = 1)"]
    for k in (2, 3):
        for perm in itertools.permutations(colopts, k):
            out.append(("ParseDDL", ("CREATE TABLE t (a INT64%s, b INT64) PRIMARY KEY (b)" % "".join(perm)).encode()))
            out.append(("ParseDDL", ("ALTER TABLE t ADD COLUMN a INT64%s" % "".join(perm)).encode()))
    idx = [" STORING (c)", " OPTIONS (o = 1)", ", INTERLEAVE IN p"]
    for k in (2, 3):
        for perm in itertools.permutations(idx, k):
            out.append(("ParseDDL", ("CREATE INDEX i ON t (a)" + "".join(perm)).encode()))
    seq = [" BIT_REVERSED_POSITIVE", " SKIP RANGE 1, 2", " START COUNTER WITH 3"]
    for k in (2, 3):
        for perm in itertools.permutations(seq, k):
            out.append(("ParseDDL", ("CREATE SEQUENCE s" + "".join(perm) + " OPTIONS (o = 1)").encode()))
            out.append(("ParseDDL", ("CREATE TABLE t (id INT64 GENERATED BY DEFAULT AS IDENTITY (%s)) PRIMARY KEY (id)" % "".join(perm).strip()).encode()))
    sel = [" WHERE a > 1", " GROUP BY a", " HAVING COUNT(*) > 1", " ORDER BY a", " LIMIT 1"]
    for perm in itertools.permutations(sel, 3):
        out.append(("ParseQuery", ("SELECT a FROM t" + "".join(perm)).encode()))
    dml = [" WHERE a = 1", " THEN RETURN a"]
    for perm in itertools.permutations(dml, 2):
        out.append(("ParseDML", ("UPDATE t SET a = 2" + "".join(perm)).encode()))
        out.append(("ParseDML", ("DELETE FROM t" + "".join(perm)).encode()))
    pb = [" INSERT (a.B)", " UPDATE (c.D)", " DELETE (e.F)"]
    for k in (2, 3):
        for perm in itertools.permutations(pb, k):
            out.append(("ParseDDL", ("ALTER PROTO BUNDLE" + "".join(perm)).encode()))
    cs = [" FOR ALL", " OPTIONS (r = '1d')"]
    for perm in itertools.permutations(cs, 2):
        out.append(("ParseDDL", ("CREATE CHANGE STREAM s" + "".join(perm)).encode()))
    return out


TRAILING_COMMA = [("ParseExpr", "f(1, )"), ("ParseExpr", "f(x => 1, )"), ("ParseExpr", "f(1, x => 1, y => 2, )"), ("ParseExpr", "SAFE.g(a => b,) + 1"),
                  ("ParseExpr", "[1, 2, ]"), ("ParseExpr", "(1, 2, )"), ("ParseExpr", "STRUCT(1, )"), ("ParseExpr", "STRUCT<a INT64, >(1)"), ("ParseExpr", "x IN (1, )"),
                  ("ParseExpr", "ARRAY<INT64>[1, ]"), ("ParseExpr", "NEW p.M {a: 1, }"), ("ParseExpr", "CASE WHEN a THEN f(1, ) END"), ("ParseExpr", "x IN UNNEST([1, ])"),
                  ("ParseQuery", "SELECT a, FROM t"), ("ParseQuery", "SELECT a, b, "), ("ParseQuery", "SELECT * FROM t GROUP BY a, "), ("ParseQuery", "SELECT * FROM t ORDER BY a, "),
                  ("ParseQuery", "SELECT * FROM a JOIN b USING (x, )"), ("ParseQuery", "WITH w AS (SELECT 1), SELECT * FROM w"), ("ParseQuery", "SELECT f(x => 1, ) FROM t"),
                  ("ParseQuery", "SELECT * FROM tvf(1, )"), ("ParseQuery", "SELECT * FROM tvf(a => 1, )"), ("ParseQuery", "SELECT @{a=1, } 1"),
                  ("ParseQuery", "SELECT * EXCEPT (a, ) FROM t"), ("ParseQuery", "SELECT * REPLACE (1 AS a, ) FROM t"),
                  ("ParseDML", "INSERT INTO t (a, ) VALUES (1, )"), ("ParseDML", "INSERT INTO t (a) VALUES (1), "), ("ParseDML", "UPDATE t SET a = 1, WHERE TRUE"),
                  ("ParseDML", "INSERT INTO t (a) SELECT 1,"), ("ParseDML", "DELETE FROM t WHERE a IN (1, ) THEN RETURN a, "),
                  ("ParseDDL", "CREATE TABLE t (a INT64, ) PRIMARY KEY (a, )"), ("ParseDDL", "CREATE TABLE t (a INT64 OPTIONS (x = 1, )) PRIMARY KEY (a)"),
                  ("ParseDDL", "CREATE INDEX i ON t (a, ) STORING (b, )"), ("ParseDDL", "GRANT SELECT, ON TABLE t, TO ROLE r, "), ("ParseDDL", "CREATE CHANGE STREAM s FOR t(a, ), u, "),
                  ("ParseDDL", "ALTER TABLE t ADD FOREIGN KEY (a, ) REFERENCES p (b, )"), ("ParseType", "STRUCT<a INT64, >"), ("ParseType", "STRUCT<INT64, STRING, >")]


def keyword_field_cases():
    """every reserved keyword as a back-quoted field name after bases that do and do not put the lexer into field mode"""
    out = []
    bases = ["x", "(x)", "f(x)", "a[0]", "@p", "'s'", "1.5", "CASE WHEN a THEN b END", "JSON '{}'", "[1][OFFSET(0)]", "STRUCT(1 AS a)", "(SELECT AS STRUCT 1 AS a)"]
    for kw in gen_keywords():
        for b_ in bases:
            out.append(("ParseExpr", ("%s.`%s`" % (b_, kw.lower())).encode()))
        out.append(("ParseExpr", ("NEW U {%s: {b: 1}}" % "f").encode()))
    out += [("ParseExpr", b"NEW Universe {name: \"Sol\", star: {radius_miles: 432690}}"), ("ParseExpr", b"NEW U {a: {b: {c: 1}}}"), ("ParseExpr", b"NEW U {a: {}}"),
            ("ParseExpr", b"NEW U {a {b: 1}, c: [{d: 2}], e: ({f: 3})}"), ("ParseQuery", b"SELECT NEW U {a: {b: 1}} AS u")]
    return out


def probe_cases():
    """seed-independent inputs that are NOT all sentences of the reference grammar (many are rejected): they probe the oracles that
    apply to whatever is accepted (round trip, positions, traversal ...), never the acceptance property C08"""
    return literal_systematic() + pseudo_keyword_cases() + [("ParseExpr", x) for x in NUMERIC_POSTFIX] + clause_permutations() + [(e, x.encode()) for (e, x) in TRAILING_COMMA] + keyword_field_cases() + CALL_CLAUSE_PROBES + foreign_type_cases() + compound_paren_cases()


def systematic_cases(valid_only=True):
    """seed-independent pairwise enumeration of optional clauses (every pair of column options x every key clause, ...);
    valid_only: leave out combinations Spanner forbids (two key definitions) - they are still inputs for the error-contract checks"""
    out = []
    for i, o1 in enumerate(COLUMN_OPTS):
        for j, o2 in enumerate(COLUMN_OPTS):
            k = KEY_CLAUSES[(i + j) % len(KEY_CLAUSES)]
            npk = ("PRIMARY KEY" in o1) + ("PRIMARY KEY" in o2)
            if npk and valid_only:
                if npk > 1:
                    continue
                k = ""
            elif npk and (i + j) % 3:
                k = ""
            t = TABLE_TAILS[(i * 3 + j) % len(TABLE_TAILS)]
            out.append(("ParseDDL" if (i + j) % 2 else "ParseStatement", ("CREATE TABLE t (a INT64%s, b STRING(MAX)%s)%s%s" % (o1, o2, k, t)).encode()))
    for tmpl in G.DDL_MORE:
        out.append(("ParseDDL", tmpl.encode()))
        out.append(("ParseStatement", tmpl.lower().encode() if "'" not in tmpl and '"' not in tmpl and "`" not in tmpl else tmpl.encode()))
    for k in KEY_CLAUSES:
        for o in COLUMN_OPTS:
            if "PRIMARY KEY" in o and k and valid_only:
                continue
            out.append(("ParseDDL", ("CREATE TABLE t (a INT64%s)%s" % (o, k)).encode()))
            out.append(("ParseDDL", ("ALTER TABLE t ADD COLUMN a INT64%s" % o).encode()))
    out += query_systematic()
    # the interleave clause: [PARENT] x [ON DELETE action], in CREATE TABLE and ALTER TABLE ... SET; foreign-key actions and enforcement
    for parent in ("", "PARENT "):
        for act in ("", " ON DELETE CASCADE", " ON DELETE NO ACTION"):
            out.append(("ParseDDL", ("CREATE TABLE c (id INT64) PRIMARY KEY (id), INTERLEAVE IN %sp%s" % (parent, act)).encode()))
            out.append(("ParseStatement", ("ALTER TABLE c SET INTERLEAVE IN %ss.p%s" % (parent, act)).encode()))
    for act in ("", " ON DELETE CASCADE", " ON DELETE NO ACTION"):
        for enf in ("", " ENFORCED", " NOT ENFORCED"):
            out.append(("ParseDDL", ("CREATE TABLE c (a INT64, CONSTRAINT fk FOREIGN KEY (a) REFERENCES p (b)%s%s) PRIMARY KEY (a)" % (act, enf)).encode()))
            out.append(("ParseDDL", ("ALTER TABLE c ADD FOREIGN KEY (a, b) REFERENCES p (x, y)%s%s" % (act, enf)).encode()))
    # tables without columns (only constraints / synonyms), and without anything
    for body in ("", "SYNONYM (s)", "CONSTRAINT c CHECK (TRUE)", "CHECK (TRUE), SYNONYM (s)", "FOREIGN KEY (a) REFERENCES u (b), SYNONYM (s1), SYNONYM (s2)",
                 "CONSTRAINT fk FOREIGN KEY (a) REFERENCES u (b)"):
        for tail in ("", " PRIMARY KEY (a)"):
            out.append(("ParseDDL", ("CREATE TABLE t (%s)%s" % (body, tail)).encode()))
            out.append(("ParseStatement", ("CREATE TABLE IF NOT EXISTS t (%s)%s" % (body, tail)).encode()))
    return out


def sentence_cases(rnd, n):
    g = G(rnd, gen_keywords())
    out = systematic_cases()
    for i in range(n):
        k = i % 10
        try:
            if k < 4:
                out.append(("ParseExpr", g.expr().encode()))
            elif k < 7:
                q = g.query()
                out.append((rnd.choice(["ParseQuery", "ParseStatement"]), q.encode()))
            elif k == 7:
                out.append((rnd.choice(["ParseDML", "ParseStatement"]), g.dml().encode()))
            elif k == 8:
                s = g.ddl()
                out.append(("ParseStatement" if s.startswith("CALL") or rnd.random() < 0.5 else "ParseDDL", s.encode()))
            else:
                out.append(("ParseType", g.typ().encode()))
        except RecursionError:
            pass
    return out


# ---------------------------------------------------------------- operator trees (C07): the property's own enumeration
# precedence levels of the GoogleSQL table (smaller = tighter); written from the documentation, not from parser.go
OP_LEVEL = {"*": 3, "/": 3, "||": 3, "+": 4, "-": 4, "<<": 5, ">>": 5, "&": 6, "^": 7, "|": 8,
            "=": 9, "!=": 9, "<>": 9, "<": 9, "<=": 9, ">": 9, ">=": 9, "LIKE": 9, "NOT LIKE": 9, "AND": 11, "OR": 12}
BIN_OPS = list(OP_LEVEL)
PRE_OPS = ["NOT", "-", "+", "~"]
LEAVES = ["a", "b", "c", "x.y", "1", "2.5", '"s"', "@p", "NULL", "TRUE"]


def t_level(t):
    k = t[0]
    if k == "leaf" or k == "paren":
        return 0
    if k == "post":
        return 1
    if k == "pre":
        return 10 if t[1] == "NOT" else 2
    if k == "bin":
        return OP_LEVEL[t[1]]
    return 9          # is / between / in: the comparison family


def canon_op(op):
    return "!=" if op == "<>" else op


def t_shape(t, full=False):
    """the grouping the table prescribes for t_spell(t, full), in the notation of the harness' expr-shape command: a parenthesis
    written in the spelling survives as a ParenExpr around exactly that operand"""
    def sub(c, maxlevel):
        s = t_shape(c, full)
        if full and c[0] != "leaf":
            return "(paren %s)" % s
        return "(paren %s)" % s if t_level(c) > maxlevel else s
    k = t[0]
    if k == "leaf":
        return t[1]
    if k == "paren":
        return "(paren %s)" % t_shape(t[1], full)
    if k == "post":
        base = sub(t[2], 1)
        if t[1] == ".":
            if "(" not in base and " " not in base and base[:1].isalpha():
                return base + ".f"                       # Ident.f and Path.f are Paths
            return "(. %s f)" % base
        return "([] %s 0)" % base
    if k == "pre":
        return "(%s %s)" % (t[1], sub(t[2], 10 if t[1] == "NOT" else 2))
    if k == "bin":
        L = OP_LEVEL[t[1]]
        if L == 9:
            return "(%s %s %s)" % (canon_op(t[1]).replace(" ", "_"), sub(t[2], 8), sub(t[3], 8))
        right = 10 if L == 11 else L - 1
        return "(%s %s %s)" % (canon_op(t[1]).replace(" ", "_"), sub(t[2], L), sub(t[3], right))
    if k == "is":
        return "(is%s_%s %s)" % ("_not" if t[1] else "", t[2], sub(t[3], 8))
    if k == "between":
        return "(%sbetween %s %s %s)" % ("not_" if t[1] else "", sub(t[2], 8), sub(t[3], 8), sub(t[4], 8))
    if k == "in":
        return "(%sin %s 1 2)" % ("not_" if t[1] else "", sub(t[2], 8))
    raise ValueError(k)


def t_spell(t, full=False):
    """minimal parentheses by the table (full: a parenthesis around every operand; then the expected shape has paren nodes)"""
    def sub(c, maxlevel):
        s = t_spell(c, full)
        if full and c[0] != "leaf":
            return "(" + s + ")"
        return "(" + s + ")" if t_level(c) > maxlevel else s
    k = t[0]
    if k == "leaf":
        return t[1]
    if k == "paren":
        return "(" + t_spell(t[1], full) + ")"
    if k == "post":
        base = sub(t[2], 1)
        return base + (".f" if t[1] == "." else "[0]")
    if k == "pre":
        if t[1] == "NOT":
            return "NOT " + sub(t[2], 10)
        x = sub(t[2], 2)
        return t[1] + (" " if x[:1] in "+-" else "") + x
    if k == "bin":
        L = OP_LEVEL[t[1]]
        if L == 9:
            return "%s %s %s" % (sub(t[2], 8), t[1], sub(t[3], 8))
        right = 10 if L == 11 else L - 1          # AND's right operand is parsed at the NOT level
        return "%s %s %s" % (sub(t[2], L), t[1], sub(t[3], right))
    if k == "is":
        return "%s IS %s%s" % (sub(t[3], 8), "NOT " if t[1] else "", t[2])
    if k == "between":
        return "%s %sBETWEEN %s AND %s" % (sub(t[2], 8), "NOT " if t[1] else "", sub(t[3], 8), sub(t[4], 8))
    if k == "in":
        return "%s %sIN (1, 2)" % (sub(t[2], 8), "NOT " if t[1] else "")
    raise ValueError(k)


def t_valid(t):
    """trees the parser can return (canonical): no sign directly over an unsigned number (it is folded into the literal);
    a postfix directly over a leaf only when the leaf is a name (1.f is a float, keywords are avoided)"""
    k = t[0]
    if k == "leaf":
        return True
    if k == "pre" and t[1] in "+-" and t[2][0] == "leaf" and t[2][1][:1].isdigit():
        return False
    if k == "post" and t[2][0] == "leaf":
        n = t[2][1]
        if not (n[:1].isalpha() and n not in ("NULL", "TRUE", "FALSE")):
            return False
    return all(t_valid(c) for c in t[1:] if isinstance(c, tuple))


def op_trees(n, leaves):
    """all trees with exactly n operator occurrences; leaves are taken round-robin from [leaves]"""
    if n == 0:
        return [("leaf", None)]
    out = []
    for sub in op_trees(n - 1, leaves):
        for op in PRE_OPS:
            out.append(("pre", op, sub))
        out.append(("post", ".", sub))
        out.append(("post", "[]", sub))
        out.append(("is", False, "NULL", sub))
        out.append(("is", True, "TRUE", sub))
        out.append(("in", False, sub))
    for k in range(n):
        for l in op_trees(k, leaves):
            for r in op_trees(n - 1 - k, leaves):
                for op in BIN_OPS:
                    out.append(("bin", op, l, r))
    if n >= 1:
        for k in range(n):
            for l in op_trees(k, leaves):
                for r in op_trees(n - 1 - k, leaves):
                    out.append(("between", k % 2 == 1, l, r, ("leaf", None)))
    return out


def label_leaves(t, names, counter):
    if t[0] == "leaf":
        counter[0] += 1
        return ("leaf", names[counter[0] % len(names)])
    return tuple(label_leaves(c, names, counter) if isinstance(c, tuple) else c for c in t)


def random_op_tree(rnd, depth):
    if depth <= 0 or rnd.random() < 0.25:
        return ("leaf", rnd.choice(LEAVES))
    k = rnd.randrange(10)
    if k < 5:
        return ("bin", rnd.choice(BIN_OPS), random_op_tree(rnd, depth - 1), random_op_tree(rnd, depth - 1))
    if k == 5:
        return ("pre", rnd.choice(PRE_OPS), random_op_tree(rnd, depth - 1))
    if k == 6:
        return ("post", rnd.choice([".", "[]"]), random_op_tree(rnd, depth - 1))
    if k == 7:
        return ("is", rnd.random() < 0.5, rnd.choice(["NULL", "TRUE", "FALSE"]), random_op_tree(rnd, depth - 1))
    if k == 8:
        return ("between", rnd.random() < 0.5, random_op_tree(rnd, depth - 1), random_op_tree(rnd, depth - 1), random_op_tree(rnd, depth - 1))
    return ("in", rnd.random() < 0.5, random_op_tree(rnd, depth - 1))


def precedence_cases(rnd, max_ops, n_random):
    """(input bytes, expected shape) for every tree with <= max_ops operators in minimal and full spelling + random deeper trees"""
    out = []
    names = ["a", "b", "c", "d", "e"]
    for n in range(0, max_ops + 1):
        for t in op_trees(n, names):
            t = label_leaves(t, names, [-1])
            if not t_valid(t):
                continue
            out.append((t_spell(t).encode(), t_shape(t)))
            if n > 0:
                out.append((t_spell(t, True).encode(), t_shape(t, True)))
    for _ in range(n_random):
        t = random_op_tree(rnd, rnd.randrange(2, 6))
        if not t_valid(t):
            continue
        out.append((t_spell(t).encode(), t_shape(t)))
    return out


# ---------------------------------------------------------------- type expressions (the whole grammar of ParseType)
TYPE_SYMS = [b"INT64", b"string", b"a", b"b", b"ARRAY", b"STRUCT", b"<", b">", b"<>", b">>", b",", b".", b" "]


def type_trees(depth, names=(b"INT64", b"STRING", b"a", b"a.b", b"`x y`.c", b"Bool", b"`bytes`")):
    """all type expressions of the given nesting depth over a small alphabet, as lists of lexemes (closers are single '>')"""
    if depth == 0:
        return [[n] for n in names[:4]]
    sub = type_trees(depth - 1)
    out = [[n] for n in names]
    for t in sub:
        out.append([b"ARRAY", b"<"] + t + [b">"])
    out.append([b"STRUCT", b"<", b">"])
    out.append([b"STRUCT", b"<>"])
    for t in sub:
        out.append([b"STRUCT", b"<"] + t + [b">"])
        out.append([b"STRUCT", b"<", b"f"] + t + [b">"])
        out.append([b"STRUCT", b"<", b"int64"] + t + [b",", b"g", b"INT64", b">"])
    for t in sub[:6]:
        for u in sub[:6]:
            out.append([b"STRUCT", b"<"] + t + [b","] + u + [b">"])
    return out


def join_compact(lexemes):
    """no white space except between two words (so that adjacent closers fuse into >>, and <> appears for an empty struct)"""
    out = b""
    for x in lexemes:
        if out and (out[-1:].isalnum() or out[-1:] in b"_`") and (x[:1].isalnum() or x[:1] in b"_`"):
            out += b" "
        out += x
    return out


def type_cases(rnd, quick):
    import itertools
    cases = []
    # every sequence of <= 4 (5) symbols, glued without separator (the symbol " " gives the spaced variants)
    for n in range(1, (4 if quick else 5) + 1):
        for seq in itertools.product(TYPE_SYMS, repeat=n):
            cases.append(b"".join(x if x in (b"<", b">", b"<>", b">>", b",", b".", b" ") else x + b" " for x in seq))
    trees = type_trees(3 if quick else 4)
    if len(trees) > (4000 if quick else 60000):
        trees = rnd.sample(trees, 4000 if quick else 60000)
    for t in trees:
        cases.append(join_compact(t))
        cases.append(b" ".join(t))
        cases.append(b" /*c*/ ".join(t))
    # near misses: one lexeme dropped, doubled or replaced
    for t in rnd.sample(trees, min(len(trees), 1500 if quick else 20000)):
        i = rnd.randrange(len(t))
        k = rnd.randrange(3)
        u = t[:i] + t[i + 1:] if k == 0 else t[:i] + [t[i]] + t[i:] if k == 1 else t[:i] + [rnd.choice(TYPE_SYMS + [b"1", b"(", b")", b";"])] + t[i + 1:]
        cases.append(join_compact(u))
    # names that are types elsewhere: ordinary named types here, alone and nested
    cases += [x for (e, x) in foreign_type_cases() if e == "ParseType"]
    return sorted(set(cases))


# ---------------------------------------------------------------- systematic error injection (inputs for the error-contract properties)
INJECT_BASE = [
    ("ParseQuery", "SELECT a , b FROM t WHERE x = 1 GROUP BY a HAVING c > 2 ORDER BY a LIMIT 1 OFFSET 2"),
    ("ParseQuery", "SELECT 1 FROM t UNION ALL SELECT 2 FROM u LIMIT 3"),
    ("ParseQuery", "( SELECT 1 FROM t ) UNION ALL ( SELECT 2 ) ORDER BY 1 LIMIT 4"),
    ("ParseQuery", "SELECT * FROM ( SELECT 1 AS x UNION DISTINCT SELECT 2 ) AS s JOIN u ON s . x = u . y"),
    ("ParseQuery", "WITH w AS ( SELECT 1 AS x ) SELECT x FROM w INTERSECT ALL SELECT 2 LIMIT 1"),
    ("ParseQuery", "SELECT ( SELECT 1 EXCEPT DISTINCT SELECT 2 LIMIT 1 ) , ARRAY ( SELECT 3 )"),
    ("ParseQuery", "SELECT f ( 1 , g ( 2 ) ) , a [ OFFSET ( 0 ) ] , CASE WHEN x THEN 1 ELSE 2 END FROM t"),
    ("ParseQuery", "SELECT CAST ( x AS ARRAY < STRUCT < a INT64 , b STRING > > ) , IF ( a , b , c ) FROM t TABLESAMPLE BERNOULLI ( 1 PERCENT )"),
    ("ParseQuery", "SELECT GET_NEXT_SEQUENCE_VALUE ( SEQUENCE s ) , EXTRACT ( DAY FROM d ) , [ 1 , 2 ] , STRUCT ( 1 AS a ) FROM t"),
    ("ParseQuery", "SELECT * FROM a LEFT JOIN b USING ( x ) CROSS JOIN UNNEST ( [ 1 , 2 ] ) AS e WITH OFFSET AS o"),
    ("ParseQuery", "FROM t |> WHERE a > 1 |> SELECT a , b |> WHERE b"),
    ("ParseQuery", "SELECT NEW p . M { a : 1 , b : { c : 2 } } , x . * , y . * EXCEPT ( z ) FROM t"),
    ("ParseExpr", "a + b * f ( c , d ) - ( e [ 1 ] ) . g"),
    ("ParseExpr", "x IN ( 1 , 2 ) AND y BETWEEN 3 AND 4 OR z IS NOT NULL"),
    ("ParseExpr", "EXISTS ( SELECT 1 ) OR x IN UNNEST ( [ 1 ] ) OR ARRAY < INT64 > [ 1 ]"),
    ("ParseExpr", "CASE x WHEN 1 THEN 2 WHEN 3 THEN 4 ELSE 5 END + DATE '2020-01-01'"),
    ("ParseStatement", "INSERT INTO t ( a , b ) VALUES ( 1 , 2 ) , ( 3 , DEFAULT ) THEN RETURN WITH ACTION AS act a , b"),
    ("ParseStatement", "INSERT INTO t ( a ) SELECT 1 FROM u UNION ALL SELECT 2 LIMIT 3"),
    ("ParseStatement", "UPDATE t AS x SET x . a = 1 , b = DEFAULT WHERE c = 2 THEN RETURN *"),
    ("ParseStatement", "DELETE FROM t WHERE a IN ( SELECT b FROM u ) THEN RETURN a"),
    ("ParseStatement", "CREATE TABLE t ( a INT64 NOT NULL , b ARRAY < STRING ( MAX ) > , c INT64 AS ( a + 1 ) STORED , CONSTRAINT k CHECK ( a > 0 ) ) PRIMARY KEY ( a ) , INTERLEAVE IN PARENT p ON DELETE CASCADE"),
    ("ParseStatement", "CREATE INDEX i ON t ( a DESC , b ) STORING ( c ) , INTERLEAVE IN p"),
    ("ParseStatement", "ALTER TABLE t ADD COLUMN c STRING ( 10 ) DEFAULT ( 'x' ) OPTIONS ( o = 1 )"),
    ("ParseStatement", "CREATE VIEW v SQL SECURITY INVOKER AS SELECT a FROM t UNION ALL SELECT b FROM u"),
    ("ParseStatement", "CREATE CHANGE STREAM s FOR t ( a , b ) , u OPTIONS ( r = '1d' )"),
    ("ParseStatement", "GRANT SELECT ( a , b ) , INSERT ON TABLE t , u TO ROLE r1 , r2"),
    ("ParseStatement", "CREATE SEQUENCE s BIT_REVERSED_POSITIVE SKIP RANGE 1 , 2 START COUNTER WITH 3 OPTIONS ( o = 1 )"),
    ("ParseStatement", "CALL p ( 1 , ( SELECT 2 ) )"),
    ("ParseStatement", "SELECT NEW pkg . T { a : 1 , b : { c : 2 } d : [ 3 ] } , STRUCT < a INT64 , b STRING > ( 1 , 'x' ) + 1"),
    ("ParseStatement", "INSERT INTO t ( a ) VALUES ( NEW pkg . T { a : 1 b : 2 } )"),
    ("ParseQuery", "SELECT * , t . * , * EXCEPT ( a ) , s . * REPLACE ( 1 AS b ) FROM t"),
    ("ParseType", "STRUCT < a ARRAY < STRUCT < b INT64 , c x . y > > , d STRING >"),
    ("ParseQuery", "SELECT ( ( SELECT 1 ) ) , x IN ( ( SELECT 2 ) ) FROM ( ( SELECT 3 ) ) WHERE y = ( ( ( SELECT 4 ) ) )"),
    ("ParseStatement", "DELETE FROM t WHERE a = ( ( SELECT 1 UNION ALL SELECT 2 ) )"),
    # hints in every place a hint is documented, and in places where one might be added (probes: rejected today)
    ("ParseQuery", "@{ h = 1 } SELECT a FROM t @{ FORCE_INDEX = i } JOIN @{ JOIN_METHOD = HASH_JOIN } u ON a = b GROUP @{ g = 1 } BY a"),
    ("ParseExpr", "EXISTS @{ h = 1 } ( WITH w AS ( SELECT 1 ) SELECT * FROM w UNION ALL SELECT 2 UNION ALL SELECT 3 )"),
    ("ParseExpr", "ARRAY @{ h = 1 } ( WITH w AS ( SELECT 1 ) SELECT * FROM w ) [ OFFSET ( 0 ) ] + f @{ h = 1 } ( x )"),
    ("ParseStatement", "@{ h = 1 } INSERT INTO t ( a ) @{ g = 2 } SELECT 1 FROM u"),
]
BAD_PARSE = [b"( 1 + )", b"g ( 1 2 )", b"a [ 1 + ]", b"( SELECT 1 2 )", b"CASE WHEN 1 2 THEN 3 END", b"x y z"]
BAD_LEX = [b"1a", b"'abc", b'"abc', b"`x", b"/* open", b"0x", b"1e+", b"'a\\q'"]


def injection_cases(rnd, quick):
    """every word position of the base sentences replaced by a construct with a syntax error inside (so that the error is recovered in a
    nested production), every position deleted, and every PAIR (parse-level error at i, token that does not lex at j > i)"""
    import re
    out = []
    word = re.compile(rb"^[A-Za-z_@][A-Za-z0-9_]*$|^[0-9]+$|^'.*'$")
    for (e, s_) in INJECT_BASE:
        toks = s_.encode().split(b" ")
        for i in range(len(toks)):
            out.append((e, b" ".join(toks[:i] + toks[i + 1:])))
            out.append((e, b" ".join(toks[:i])))
            if word.match(toks[i]):
                for b_ in BAD_PARSE:
                    out.append((e, b" ".join(toks[:i] + [b_] + toks[i + 1:])))
                out.append((e, b" ".join(toks[:i] + [BAD_LEX[i % len(BAD_LEX)]] + toks[i + 1:])))
        # pairs
        n = len(toks)
        pairs = [(i, j) for i in range(n) for j in range(i + 1, n)]
        if quick and len(pairs) > 150:
            pairs = rnd.sample(pairs, 150)
        for (i, j) in pairs:
            first = BAD_PARSE[(i + j) % len(BAD_PARSE)] if word.match(toks[i]) else b""
            t2 = toks[:i] + ([first] if first else []) + toks[i + 1:j] + [BAD_LEX[(i * 7 + j) % len(BAD_LEX)]] + toks[j + 1:]
            out.append((e, b" ".join(t2)))
    return out


def semicolon_insertions():
    """a ';' token at every position of the base sentences (a production that swallows a ';' makes the list entry point disagree with the
    raw-statement split), and trailing-comma forms followed by ';'"""
    out = []
    for (e, b_) in INJECT_BASE:
        if e not in ("ParseStatement", "ParseQuery"):
            continue
        toks = b_.encode().split(b" ")
        dml = toks[0].upper() in (b"INSERT", b"UPDATE", b"DELETE")
        for i in range(1, len(toks)):
            s_ = b" ".join(toks[:i] + [b";"] + toks[i:])
            out.append(("ParseStatements", s_))
            if dml:
                out.append(("ParseDMLs", s_))
    for (e, x) in TRAILING_COMMA:
        if e in ("ParseQuery", "ParseDML"):
            out.append(("ParseStatements", x.encode() + b"; SELECT 1"))
            out.append(("ParseStatements", x.encode() + b" /* c */ ;"))
            if e == "ParseDML":
                out.append(("ParseDMLs", x.encode() + b"; DELETE FROM t WHERE TRUE"))
    for ret in (b"THEN RETURN a,", b"THEN RETURN a, b,", b"THEN RETURN WITH ACTION AS act a,", b"THEN RETURN *,"):
        for st in (b"DELETE FROM t WHERE TRUE ", b"UPDATE t SET a = 1 WHERE TRUE ", b"INSERT INTO t (a) VALUES (1) "):
            out.append(("ParseDMLs", st + ret + b"; DELETE FROM t WHERE TRUE"))
            out.append(("ParseStatements", st + ret + b";"))
            out.append(("ParseStatements", st + ret))
    return out


def truncated_piece_lists():
    """lists whose first piece is a proper prefix of a statement (C11: the list has no error exactly when every piece is accepted alone;
    a production that stops early only because the next token is ';' rather than end of input shows up here)"""
    out = []
    bases = [b_.encode() for (e, b_) in INJECT_BASE if e in ("ParseStatement", "ParseQuery")] + [t.encode() for t in G.DDL_MORE]
    for b_ in bases:
        toks = b_.split(b" ")
        for i in range(1, len(toks)):
            head = b" ".join(toks[:i])
            ddl = head.upper().startswith((b"CREATE", b"ALTER", b"DROP", b"GRANT", b"REVOKE", b"RENAME", b"ANALYZE"))
            dml = head.upper().startswith((b"INSERT", b"UPDATE", b"DELETE"))
            out.append(("ParseStatements", head + b"; SELECT 1"))
            if ddl:
                out.append(("ParseDDLs", head + b";"))
                out.append(("ParseDDLs", head + b" /* c */ ;\nDROP TABLE t"))
            if dml:
                out.append(("ParseDMLs", head + b"; DELETE FROM t WHERE TRUE"))
    return out


MULTIBYTE_BEFORE_ERROR = [b"SELECT '\xc3\xa9' FROM FROM", b"SELECT 1\nFROM `\xe6\x97\xa5\xe6\x9c\xac\xe8\xaa\x9e` WHERE", b"SELECT /* \xf0\x9f\x98\x80 */ )",
                          b"SELECT \"\xc3\xa9\xc3\xa9\" AS a, 'x' y z", b"-- \xc3\xa9\nSELECT '\xe2\x82\xac' + ) FROM t", b"SELECT `\xc3\xa9`.`\xf0\x9f\x98\x80` FROM (",
                          b"CREATE TABLE `t\xc3\xa9` (a INT64) PRIMARY (a)", b"SELECT '\xc3\xa9';\nSELECT '\xc3\xa9\xc3\xa9' 1 2"]


# ---------------------------------------------------------------- the statement family of Parse/StmtModel.v
STMT_WORDS = [b"DROP", b"CREATE", b"ANALYZE", b"TABLE", b"INDEX", b"SEARCH", b"VECTOR", b"SCHEMA", b"DATABASE", b"VIEW", b"ROLE", b"SEQUENCE", b"MODEL",
              b"CHANGE", b"STREAM", b"PROPERTY", b"GRAPH", b"PROTO", b"BUNDLE", b"LOCALITY", b"GROUP", b"IF", b"EXISTS", b"a", b"a.b", b"`x y`", b"`TABLE`", b";", b"1", b".", b"drop", b"table"]
# the vocabulary of RENAME TABLE / GRANT / REVOKE (sequences of it are generated separately: the products stay small)
PRIV_WORDS = [b"GRANT", b"REVOKE", b"RENAME", b"TABLE", b"SELECT", b"INSERT", b"UPDATE", b"DELETE", b"EXECUTE", b"FUNCTION", b"ROLE", b"ON", b"TO", b"FROM", b"VIEW", b"CHANGE",
              b"STREAM", b",", b"(", b")", b"a", b"`b c`", b";", b"1"]
# the vocabulary of CREATE / ALTER PROTO BUNDLE, ALTER INDEX, ALTER SEARCH INDEX
ALTER_WORDS = [b"ALTER", b"CREATE", b"PROTO", b"BUNDLE", b"INSERT", b"UPDATE", b"DELETE", b"INDEX", b"SEARCH", b"ADD", b"DROP", b"STORED", b"COLUMN", b"(", b")", b",", b".",
               b"a", b"a.b", b"`c d`", b";", b"TABLE"]
STMT_VALID = ["DROP SCHEMA s", "DROP LOCALITY GROUP g", "DROP PROTO BUNDLE", "DROP TABLE t", "DROP TABLE IF EXISTS a.b.c", "DROP INDEX i", "DROP INDEX IF EXISTS s.i",
              "DROP SEARCH INDEX i", "DROP SEARCH INDEX IF EXISTS i", "DROP VECTOR INDEX v", "DROP VECTOR INDEX IF EXISTS v", "DROP SEQUENCE s", "DROP SEQUENCE IF EXISTS a.s",
              "DROP VIEW v", "DROP VIEW a.v", "DROP ROLE r", "DROP CHANGE STREAM cs", "DROP MODEL m", "DROP MODEL IF EXISTS m", "DROP PROPERTY GRAPH g",
              "DROP PROPERTY GRAPH IF EXISTS g", "ANALYZE", "CREATE SCHEMA s", "CREATE DATABASE d", "drop table `select`", "Drop Table If Exists `a b`.`c`",
              "CREATE ROLE r", "RENAME TABLE a TO b", "RENAME TABLE a TO b , c TO d , e TO f", "rename table `x y` to z",
              "GRANT SELECT ON TABLE t TO ROLE r", "GRANT SELECT ( a , b ) , INSERT ( c ) , UPDATE , DELETE ON TABLE t , u TO ROLE r , s",
              "GRANT INSERT , UPDATE ( a ) ON TABLE t TO ROLE r", "GRANT SELECT ON VIEW v , w TO ROLE r", "GRANT EXECUTE ON TABLE FUNCTION f , g TO ROLE r",
              "GRANT ROLE a , b TO ROLE c", "GRANT SELECT ON CHANGE STREAM cs , ds TO ROLE r", "REVOKE SELECT ON TABLE t FROM ROLE r",
              "REVOKE ROLE a FROM ROLE b , c", "REVOKE EXECUTE ON TABLE FUNCTION f FROM ROLE r", "REVOKE SELECT ON VIEW v FROM ROLE r",
              "REVOKE DELETE ON TABLE t FROM ROLE r", "grant select ( `a b` ) on table `t` to role `r`",
              "CREATE PROTO BUNDLE ( a.b , c )", "CREATE PROTO BUNDLE ( a )", "ALTER PROTO BUNDLE", "ALTER PROTO BUNDLE INSERT ( a )",
              "ALTER PROTO BUNDLE INSERT ( a ) UPDATE ( b.c , d ) DELETE ( e )", "ALTER PROTO BUNDLE UPDATE ( a ) DELETE ( b )", "ALTER PROTO BUNDLE DELETE ( `a b`.c )",
              "ALTER INDEX i ADD STORED COLUMN c", "ALTER INDEX s.i DROP STORED COLUMN c", "ALTER SEARCH INDEX i ADD STORED COLUMN c",
              "ALTER SEARCH INDEX i DROP STORED COLUMN `c d`", "alter index a.b.c add stored column d"]


def stmt_family_cases(rnd, quick):
    """inputs for the statement-family model: every sequence of <= 3 (4) words of its vocabulary, the valid forms, every truncation / deletion /
    duplication / replacement of them, and ';'-joined lists of such pieces (empty statements, trailing separators, comments)"""
    import itertools
    single = set()
    for n in range(0, (3 if quick else 4) + 1):
        for seq in itertools.product(STMT_WORDS, repeat=n):
            single.add(b" ".join(seq))
    for n in range(1, 4):
        for seq in itertools.product(ALTER_WORDS, repeat=n):
            single.add(b" ".join(seq))
            if n == 3:
                single.add(b"ALTER PROTO BUNDLE " + b" ".join(seq))
                single.add(b"ALTER INDEX " + b" ".join(seq) + b" COLUMN c")
                if not quick:
                    single.add(b"ALTER PROTO BUNDLE INSERT ( a " + b" ".join(seq))
                    single.add(b"CREATE PROTO BUNDLE ( " + b" ".join(seq))
                    single.add(b"ALTER SEARCH INDEX " + b" ".join(seq) + b" c")
    for n in range(1, 4):
        for seq in itertools.product(PRIV_WORDS, repeat=n):
            single.add(b" ".join(seq))
            if n == 3:
                single.add(b"GRANT SELECT " + b" ".join(seq))
                if not quick:
                    single.add(b"REVOKE " + b" ".join(seq) + b" FROM ROLE r")
                    single.add(b"GRANT SELECT ( a ) " + b" ".join(seq) + b" r")
    pieces = set()
    for v in STMT_VALID:
        toks = v.encode().split(b" ")
        pieces.add(v.encode())
        for i in range(len(toks) + 1):
            pieces.add(b" ".join(toks[:i]))
            if i < len(toks):
                pieces.add(b" ".join(toks[:i] + toks[i + 1:]))
                pieces.add(b" ".join(toks[:i] + [toks[i]] + toks[i:]))
                for w in (b"1", b"IF", b"`TABLE`", b".", b"x", b"(", b"/*c*/", b",", b"ON", b"SELECT", b"TO"):
                    pieces.add(b" ".join(toks[:i] + [w] + toks[i + 1:]))
                    pieces.add(b" ".join(toks[:i] + [w] + toks[i:]))
    single |= pieces
    pl = sorted(pieces)
    lists = set()
    seps = [b";", b"; ", b" ;\n", b";;", b"; /*c*/ ;", b";\n-- x\n"]
    for _ in range(3000 if quick else 60000):
        k = rnd.randrange(0, 5)
        parts = [rnd.choice(pl) if rnd.random() < 0.5 else rnd.choice(STMT_VALID).encode() for _ in range(k)]
        s_ = b""
        for part in parts:
            s_ += part + rnd.choice(seps)
        if rnd.random() < 0.5:
            s_ += rnd.choice(STMT_VALID).encode()
        lists.add(rnd.choice([b"", b" ", b"\n"]) + s_)
    for v in STMT_VALID:
        for w in STMT_VALID[:6]:
            lists.add(v.encode() + b";" + w.encode())
            lists.add(v.encode() + b" ; " + w.encode() + b";")
    return sorted(single), sorted(lists)


# ---------------------------------------------------------------- long lists, many-line error ranges, calls with clauses inside the parentheses
def long_lists():
    """node-slice fields with more than 256 / 1024 elements (batching, growth and stack handling of traversals and printers)"""
    out = []
    for n in (257, 300, 700, 1100):
        cols = ", ".join("c%d" % i for i in range(n))
        nums = ", ".join(str(i) for i in range(n))
        out.append(("ParseQuery", ("SELECT %s FROM t" % cols).encode()))
        out.append(("ParseExpr", ("x IN (%s)" % nums).encode()))
        out.append(("ParseExpr", ("[%s]" % nums).encode()))
        out.append(("ParseExpr", ("f(%s)" % nums).encode()))
        out.append(("ParseDML", ("INSERT INTO t (a) VALUES %s" % ", ".join("(%d)" % i for i in range(n))).encode()))
        out.append(("ParseDDL", ("CREATE TABLE t (%s) PRIMARY KEY (c0)" % ", ".join("c%d INT64" % i for i in range(n))).encode()))
        out.append(("ParseStatements", ("; ".join("SELECT %d" % i for i in range(n))).encode()))
        out.append(("ParseQuery", ("SELECT * FROM t WHERE " + " AND ".join("c%d = %d" % (i, i) for i in range(n))).encode()))
    return out


Q3 = b"'" * 3
DQ3 = b'"' * 3
MULTILINE_ERRORS = [b"SELECT 1,\n  /* TODO\n\n\n\n     the rest\nFROM t\n", b"SELECT " + DQ3 + b"a\nb\nc\nd\ne\nf", b"SELECT 1;\nSELECT r" + Q3 + b"x\n\n\n\n\n\ny",
                    b"@{FORCE_INDEX=_BASE_TABLE}\n-- a\n-- b\n-- c\nCALL cancel_query('1')", b"@{a=1}\n\n\n\n\n\nDROP TABLE t",
                    b"SELECT (\n1\n,\n2\n,\n3\n,\n4 5\n)", b"/*\n\n\n\n\n\n", b"SELECT " + Q3 + b"\n\n\n\n\n", b"SELECT 1 +\n\n\n\n\n\n/* x",
                    b"SELECT 1\n\n\n\n\n\n\n+", b"SELECT\n\n\n\n\n\n\n\n\n\n\n\n1 1"]

CALL_CLAUSE_PROBES = [("ParseExpr", b"ARRAY_AGG(x ORDER BY y)"), ("ParseExpr", b"ARRAY_AGG(DISTINCT x IGNORE NULLS ORDER BY x DESC LIMIT 3)"), ("ParseExpr", b'STRING_AGG(name, ", " LIMIT 2)'),
                      ("ParseExpr", b"ARRAY_AGG(x HAVING MAX y ORDER BY z)"), ("ParseQuery", b"SELECT ARRAY_AGG(x ORDER BY y LIMIT 1) FROM t"), ("ParseExpr", b"f(x ORDER BY y, z DESC)"),
                      ("ParseExpr", b"COUNT(* LIMIT 1)"), ("ParseExpr", b"ARRAY_CONCAT_AGG(x ORDER BY y)")]


def same_length_line_pairs(inputs):
    """for each input with a blank: the input and a copy with one blank replaced by a line feed (same length, other line table)"""
    out = []
    for x in inputs:
        idx = [i for i, c in enumerate(x) if c == 0x20]
        if not idx:
            continue
        for i in (idx[0], idx[-1], idx[len(idx) // 2]):
            out.append(x)
            out.append(x[:i] + b"\n" + x[i + 1:])
    return out


# ---------------------------------------------------------------- round-5 additions
# type names other SQL dialects (and GoogleSQL outside Spanner) use: here they are ordinary named types, in every position a type can take
FOREIGN_TYPE_NAMES = [b"INT", b"INTEGER", b"BIGINT", b"SMALLINT", b"TINYINT", b"BYTEINT", b"BOOLEAN", b"DECIMAL", b"BIGDECIMAL", b"BIGNUMERIC", b"DOUBLE", b"FLOAT", b"REAL",
                      b"VARCHAR", b"CHAR", b"TEXT", b"BLOB", b"DATETIME", b"TIME", b"GEOGRAPHY", b"RANGE", b"int", b"boolean", b"Integer", b"float", b"uuid", b"UUID", b"TOKENLIST"]


def foreign_type_cases():
    out = []
    for n in FOREIGN_TYPE_NAMES:
        out += [("ParseType", n), ("ParseType", b"ARRAY<" + n + b">"), ("ParseType", b"STRUCT<amount " + n + b", " + n + b">"), ("ParseType", b"ARRAY<STRUCT<x ARRAY<" + n + b">>>"),
                ("ParseExpr", b"CAST(1 AS " + n + b")"), ("ParseExpr", b"SAFE_CAST(x AS ARRAY<" + n + b">)"), ("ParseExpr", b"ARRAY<" + n + b">[1]"), ("ParseExpr", b"STRUCT<" + n + b">(1)"),
                ("ParseQuery", b"SELECT CAST(x AS " + n + b") FROM t"), ("ParseDDL", b"CREATE FUNCTION f(a " + n + b") RETURNS " + n + b" AS (a)")]
    return out


def compound_paren_cases():
    """set operations whose LEFT (and right) operand is a parenthesised compound query, with equal and with different operators / modifiers"""
    ops = [b"UNION ALL", b"UNION DISTINCT", b"INTERSECT ALL", b"INTERSECT DISTINCT", b"EXCEPT ALL", b"EXCEPT DISTINCT"]
    out = []
    for a in ops:
        for b in (a, ops[(ops.index(a) + 1) % len(ops)]):
            l = b"(SELECT 1 " + a + b" SELECT 2) " + b + b" SELECT 3"
            r = b"SELECT 1 " + a + b" (SELECT 2 " + b + b" SELECT 3)"
            both = b"(SELECT 1 " + a + b" SELECT 2) " + b + b" (SELECT 3 " + a + b" SELECT 4)"
            deep = b"((SELECT 1 " + a + b" SELECT 2) " + a + b" SELECT 3) " + b + b" SELECT 4"
            for x in (l, r, both, deep):
                out += [("ParseQuery", x), ("ParseQuery", b"SELECT * FROM (" + x + b") AS s"), ("ParseQuery", x + b" ORDER BY 1 LIMIT 2"),
                        ("ParseExpr", b"ARRAY(" + x + b")"), ("ParseStatement", b"CREATE VIEW v SQL SECURITY INVOKER AS " + x), ("ParseDML", b"INSERT INTO t (a) " + x)]
    return out


CONTROL_BYTES = [b"\x00", b"\x01", b"\x0b", b"\x0c", b"\x1a", b"\x1f", b"\x7f", b"\x80", b"\x85", b"\xa0", b"\xff", b"\xc2\x85", b"\xc2\xa0", b"\xe2\x80\xa8", b"\xef\xbb\xbf"]


def control_byte_insertions(cases, per_case=3):
    """each input with one unusual byte (NUL and other controls, form feed / vertical tab, stray high bytes, Unicode spaces, BOM) put at a token
    boundary -- before the input, after it, and in place of a blank"""
    out = []
    for n, (e, x) in enumerate(cases):
        idx = [i for i, c in enumerate(x) if c == 0x20]
        places = [0, len(x)] + ([idx[(n * 7) % len(idx)]] if idx else [])
        for j, i in enumerate(places[:per_case]):
            c = CONTROL_BYTES[(n + j) % len(CONTROL_BYTES)]
            if i < len(x) and x[i:i + 1] == b" ":
                out.append((e, x[:i] + c + x[i + 1:]))
                out.append((e, x[:i + 1] + c + x[i:]))
            else:
                out.append((e, x[:i] + c + x[i:]))
    return out


def cross_piece_context_lists():
    """';'-joined lists in which ONE piece uses something lexically unusual -- form feed / vertical tab / Unicode space as white space, a comment
    right before the separator, a non-ASCII literal or identifier, a BOM, a lone control byte -- next to plain pieces: whatever a piece means
    alone it must mean in the list, whatever the other pieces contain"""
    plain = {"ParseStatements": [b"SELECT 1", b"DROP TABLE t", b"DELETE FROM t WHERE TRUE"], "ParseDDLs": [b"DROP TABLE t", b"CREATE TABLE t (a INT64) PRIMARY KEY (a)"],
             "ParseDMLs": [b"DELETE FROM t WHERE TRUE", b"INSERT INTO t (a) VALUES (1)"]}
    odd = {"ParseStatements": [b"SELECT\x0c1", b"SELECT\x0b1", b"SELECT\xc2\xa01", b"SELECT\xe2\x80\xa81", b"SELECT '\xc3\xa9'", b"SELECT `\xe6\x97\xa5`", b"SELECT 1 /* c */", b"SELECT 1 -- c",
                               b"SELECT 1 # c", b"SELECT 1 /**/", b"/* c */", b"SELECT \x00", b"SELECT 1\x00", b"\xef\xbb\xbfSELECT 1", b"SELECT b'\\xff'", b"SELECT 1\r", b"SELECT '\xf0\x9f\x98\x80' AS x",
                               b"SELECT 1 /* \xc3\xa9 */", b"SELECT\t1\x0c"],
           "ParseDDLs": [b"DROP\x0cTABLE t", b"DROP\x0bTABLE t", b"DROP TABLE `\xc3\xa9`", b"DROP TABLE t /* c */", b"DROP TABLE t -- c", b"DROP TABLE t /* \xc3\xa9 */", b"DROP\xc2\xa0TABLE t",
                         b"CREATE TABLE t (a STRING(MAX) DEFAULT ('\xc3\xa9')) PRIMARY KEY (a)", b"DROP TABLE t\x00"],
           "ParseDMLs": [b"DELETE\x0cFROM t WHERE TRUE", b"DELETE\x0bFROM t WHERE TRUE", b"DELETE FROM t WHERE a = '\xc3\xa9'", b"DELETE FROM t WHERE TRUE /* c */",
                         b"DELETE FROM t WHERE TRUE -- c", b"DELETE\xc2\xa0FROM t WHERE TRUE", b"DELETE FROM `\xc3\xa9` WHERE TRUE", b"DELETE FROM t WHERE TRUE\x00"]}
    out = []
    for e in plain:
        for o in odd[e]:
            for pl in plain[e]:
                out += [(e, o + b";" + pl), (e, pl + b";" + o), (e, o + b"; " + pl + b";"), (e, pl + b" ;" + o + b";" + pl)]
            for o2 in odd[e]:
                out.append((e, o + b";" + o2))
    return out
